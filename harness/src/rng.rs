//! Small deterministic PRNG (splitmix64 seeded xoshiro256**). No external crates so that
//! every execution is replayable from (seed, profile) alone.

#[derive(Clone, Debug)]
pub struct Rng {
    s: [u64; 4],
}

fn splitmix(x: &mut u64) -> u64 {
    *x = x.wrapping_add(0x9E3779B97F4A7C15);
    let mut z = *x;
    z = (z ^ (z >> 30)).wrapping_mul(0xBF58476D1CE4E5B9);
    z = (z ^ (z >> 27)).wrapping_mul(0x94D049BB133111EB);
    z ^ (z >> 31)
}

impl Rng {
    pub fn new(seed: u64) -> Rng {
        let mut x = seed;
        let s = [
            splitmix(&mut x),
            splitmix(&mut x),
            splitmix(&mut x),
            splitmix(&mut x),
        ];
        Rng { s }
    }

    #[inline]
    pub fn next(&mut self) -> u64 {
        let r = self.s[1].wrapping_mul(5).rotate_left(7).wrapping_mul(9);
        let t = self.s[1] << 17;
        self.s[2] ^= self.s[0];
        self.s[3] ^= self.s[1];
        self.s[1] ^= self.s[2];
        self.s[0] ^= self.s[3];
        self.s[2] ^= t;
        self.s[3] = self.s[3].rotate_left(45);
        r
    }

    /// Uniform in [0, n). n must be > 0.
    #[inline]
    pub fn below(&mut self, n: u64) -> u64 {
        debug_assert!(n > 0);
        ((self.next() >> 11) as u128 * n as u128 >> 53) as u64
    }

    #[inline]
    pub fn usize(&mut self, n: usize) -> usize {
        self.below(n as u64) as usize
    }

    /// Inclusive range.
    #[inline]
    pub fn range(&mut self, lo: u64, hi: u64) -> u64 {
        lo + self.below(hi - lo + 1)
    }

    /// True with probability num/den.
    #[inline]
    pub fn chance(&mut self, num: u64, den: u64) -> bool {
        self.below(den) < num
    }

    #[inline]
    pub fn pick<'a, T>(&mut self, xs: &'a [T]) -> &'a T {
        &xs[self.usize(xs.len())]
    }

    pub fn shuffle<T>(&mut self, xs: &mut [T]) {
        for i in (1..xs.len()).rev() {
            let j = self.usize(i + 1);
            xs.swap(i, j);
        }
    }

    /// Index chosen with probability proportional to weights. Sum must be > 0.
    pub fn weighted(&mut self, w: &[u32]) -> usize {
        let total: u64 = w.iter().map(|x| *x as u64).sum();
        let mut r = self.below(total.max(1));
        for (i, x) in w.iter().enumerate() {
            if r < *x as u64 {
                return i;
            }
            r -= *x as u64;
        }
        w.len() - 1
    }
}

/// FNV-1a style 64-bit mixing hasher used for fingerprints and payload hashes
/// (deterministic across runs, unlike std's RandomState).
#[derive(Clone, Copy)]
pub struct Fp(pub u64);

impl Default for Fp {
    fn default() -> Self {
        Fp(0xcbf29ce484222325)
    }
}

impl Fp {
    pub fn new() -> Fp {
        Fp::default()
    }
    #[inline]
    pub fn u(&mut self, v: u64) -> &mut Self {
        let mut z = self.0 ^ v.wrapping_mul(0x9E3779B97F4A7C15);
        z = (z ^ (z >> 32)).wrapping_mul(0xD6E8FEB86659FD93);
        z = (z ^ (z >> 32)).wrapping_mul(0xD6E8FEB86659FD93);
        self.0 = z ^ (z >> 32);
        self
    }
    #[inline]
    pub fn bytes(&mut self, b: &[u8]) -> &mut Self {
        self.u(b.len() as u64);
        let mut chunks = b.chunks_exact(8);
        for c in &mut chunks {
            self.u(u64::from_le_bytes(c.try_into().unwrap()));
        }
        let rem = chunks.remainder();
        if !rem.is_empty() {
            let mut x = [0u8; 8];
            x[..rem.len()].copy_from_slice(rem);
            self.u(u64::from_le_bytes(x));
        }
        self
    }
    pub fn get(&self) -> u64 {
        self.0
    }
}

pub fn hash_bytes(b: &[u8]) -> u64 {
    let mut f = Fp::new();
    f.bytes(b);
    f.get()
}
