//! Monitors for the cluster engine. All ghost state lives here; it is updated only from what
//! is observable at the RawNode boundary (views before/after each call, Readys, messages,
//! the simulator's own durable images). Nothing here reads `Progress.matched`,
//! `RaftLog.persisted` or the tracker to *decide* a safety verdict; those are only compared
//! against.

pub mod flow;
pub mod member;
pub mod persist;
pub mod reads;
pub mod snap;
pub mod stab;
pub mod verdict;

use std::collections::{BTreeMap, BTreeSet, VecDeque};

use raft::eraftpb::{Entry, Message, MessageType};
use raft::StateRole;

use crate::rng::Fp;
use crate::sim::cluster::{Node, Stage};
use crate::sim::types::*;
use verdict::*;

#[derive(Clone, Debug, PartialEq)]
pub struct ClEnt {
    pub term: u64,
    /// None when only the term is known (learnt from a snapshot boundary).
    pub hash: Option<u64>,
    pub conf: bool,
}

#[derive(Clone, Debug, Default)]
pub struct Shadow {
    pub base_index: u64,
    pub base_term: u64,
    /// (term, hash, is_conf, data_len, entry_type)
    pub ents: VecDeque<(u64, u64, bool, u32)>,
}

impl Shadow {
    pub fn last_index(&self) -> u64 {
        self.base_index + self.ents.len() as u64
    }
    pub fn get(&self, idx: u64) -> Option<&(u64, u64, bool, u32)> {
        if idx <= self.base_index || idx > self.last_index() {
            return None;
        }
        self.ents.get((idx - self.base_index - 1) as usize)
    }
    pub fn term(&self, idx: u64) -> Option<u64> {
        if idx == self.base_index {
            return Some(self.base_term);
        }
        self.get(idx).map(|e| e.0)
    }
    pub fn truncate_from(&mut self, idx: u64) {
        if idx <= self.base_index {
            self.ents.clear();
            return;
        }
        let keep = (idx - self.base_index - 1) as usize;
        self.ents.truncate(keep);
    }
    pub fn reset(&mut self, index: u64, term: u64) {
        self.base_index = index;
        self.base_term = term;
        self.ents.clear();
    }
    pub fn compact_to(&mut self, to: u64) {
        while self.base_index < to && !self.ents.is_empty() {
            let e = self.ents.pop_front().unwrap();
            self.base_index += 1;
            self.base_term = e.0;
        }
    }
}

#[derive(Default)]
pub struct PerNode {
    pub id: u64,
    pub shadow: Shadow,
    pub shadow_valid: bool,
    // ---- C07 (per incarnation)
    pub next_apply: u64,
    pub last_hs: raft::eraftpb::HardState,
    pub ready_outstanding: u64,
    pub handed_max: u64,
    // ---- C06
    pub max_term_seen: u64,
    /// Ever-durable (index, term) facts and snapshot coverage.
    pub ever_dur: DetSet<(u64, u64)>,
    pub ever_dur_snap: u64,
    /// (index, term) facts the library has handed out for persistence and the application wrote.
    pub ever_written: DetSet<(u64, u64)>,
    pub ever_written_snap: u64,
    /// What this node has told others (for the restart cross-check).
    pub told_term: u64,
    pub told_vote: BTreeMap<u64, u64>,
    pub told_ack: BTreeMap<u64, u64>,
    /// Terms of acked indexes at creation: msg identity -> term (keyed by (ready number, pos)).
    pub ack_terms: DetMap<(u64, u64, u64), u64>,
    // ---- C16
    pub prevote_grants: BTreeSet<u64>,
    pub prevote_round_term: u64,
    // ---- C17
    pub transfer_ticks: usize,
    // ---- C13
    pub flow: BTreeMap<u64, flow::FlowRec>,
    pub ghost_uncommitted: i64,
    pub ghost_unc_valid: bool,
    pub leader_tail: u64,
    pub batch_on: bool,
    // ---- C15: followers whose snapshot request was stepped into this node during its current
    // leadership (independent of Progress.pending_request_snapshot)
    pub snap_asked: BTreeSet<u64>,
    // ---- C09
    pub crashed: bool,
}

pub struct Ghost {
    pub boot: u64,
    pub cl: Vec<Option<ClEnt>>,
    pub committed_by: Vec<u64>,
    pub sm: Vec<Option<u64>>,
    pub gmax_commit: u64,
    pub leader_of: BTreeMap<u64, u64>,
    pub emap: DetMap<(u64, u64), (u64, u64)>,
    pub granted: DetMap<(u64, u64), u64>,
    pub conf_hist: Vec<(u64, Conf)>,
    pub per: Vec<PerNode>,
    pub reads: DetMap<Vec<u8>, reads::ReadRec>,
    pub max_term: u64,
    pub elections_started: u64,
}

pub struct Monitors {
    pub stats: Stats,
    pub violations: Vec<Violation>,
    pub g: Ghost,
    /// Cluster-wide knobs the oracles need.
    pub pre_vote_all: bool,
    pub check_quorum_all: bool,
    pub read_safe: bool,
    pub max_size_per_msg: u64,
    pub max_uncommitted: u64,
    pub lockstep: Option<stab::LockWindow>,
    pub snapshot_profile: bool,
    pub ready_models: Vec<persist::ReadyModel>,
    pub tmp_pre_match: Option<bool>,
    pub tmp_acked_beyond: Option<(u64, u64)>,
    pub tmp_flow_before: Option<flow::FlowRec>,
    pub flow_event_all: Vec<bool>,
    pub batch_dirty: Vec<bool>,
    /// (node, read context) -> number of times a MsgReadIndex carrying it was stepped there
    pub read_forward_seen: DetMap<(usize, Vec<u8>), u32>,
    /// request contexts released by acknowledgements of a re-queued duplicate request
    pub read_released_by_requeued: DetSet<Vec<u8>>,
    pub focus: Option<&'static str>,
    pub fatal: bool,
    /// (term, node): leaderships lost in a crash before the term was persisted or any message left
    pub volatile_only_leaderships: DetSet<(u64, u64)>,
}

const NO_TERM: u64 = u64::MAX;

impl Monitors {
    pub fn new(boot: u64, init_conf: Conf, sm0: u64) -> Monitors {
        let n = boot as usize + 1;
        let mut g = Ghost {
            boot,
            cl: vec![None; n],
            committed_by: vec![0; n],
            sm: vec![None; n],
            gmax_commit: boot,
            leader_of: BTreeMap::new(),
            emap: DetMap::default(),
            granted: DetMap::default(),
            conf_hist: vec![(boot, init_conf)],
            per: Vec::new(),
            reads: DetMap::default(),
            max_term: 0,
            elections_started: 0,
        };
        g.sm[boot as usize] = Some(sm0);
        Monitors {
            stats: Stats::default(),
            violations: Vec::new(),
            g,
            pre_vote_all: false,
            check_quorum_all: false,
            read_safe: true,
            max_size_per_msg: u64::MAX,
            max_uncommitted: u64::MAX,
            lockstep: None,
            snapshot_profile: false,
            ready_models: Vec::new(),
            tmp_pre_match: None,
            tmp_acked_beyond: None,
            tmp_flow_before: None,
            flow_event_all: Vec::new(),
            batch_dirty: Vec::new(),
            read_forward_seen: DetMap::default(),
            read_released_by_requeued: DetSet::default(),
            focus: None,
            fatal: false,
            volatile_only_leaderships: DetSet::default(),
        }
    }

    /// Only a violation of the property under check ends an execution (with no focus, any
    /// violation does). Violations of other properties are recorded (deduplicated, capped) and
    /// the execution goes on, so that a defect which first trips another monitor can still
    /// develop into a violation of the focus property.
    pub fn has_fatal(&self) -> bool {
        self.fatal
    }

    pub fn violation(
        &mut self,
        prop: &'static str,
        monitor: &'static str,
        sig: String,
        detail: String,
        node: u64,
        step: usize,
    ) {
        let sig = format!("{}:{}:{}", prop, monitor, sig);
        let is_focus = self.focus.map_or(true, |f| f == prop);
        if !is_focus {
            if self.violations.len() >= 16 || self.violations.iter().any(|v| v.sig == sig) {
                return;
            }
        } else {
            self.fatal = true;
        }
        self.violations.push(Violation {
            prop,
            monitor,
            sig,
            detail,
            node,
            step,
        });
    }

    pub fn on_node_added(&mut self, _v: usize, id: u64) {
        self.g.per.push(PerNode {
            id,
            ..Default::default()
        });
        self.ready_models.push(persist::ReadyModel::default());
        self.flow_event_all.push(false);
        self.batch_dirty.push(false);
    }

    // ------------------------------------------------------------------ hooks called by the simulator

    pub fn on_ready(&mut self, nodes: &[Node], v: usize, rd: &raft::Ready, has_before: bool, step: usize) -> Vec<u64> {
        let metas = persist::on_ready(self, nodes, v, rd, has_before, step);
        flow::on_committed_handed(self, nodes, v, rd.committed_entries());
        metas
    }

    pub fn on_light(&mut self, nodes: &[Node], v: usize, light: &raft::LightReady, step: usize) -> Vec<u64> {
        let metas = persist::on_light(self, nodes, v, light, step);
        flow::on_committed_handed(self, nodes, v, light.committed_entries());
        metas
    }

    pub fn on_has_ready(&mut self, nodes: &[Node], v: usize, has: bool, step: usize) {
        persist::on_has_ready(self, nodes, v, has, step);
    }

    pub fn on_release(&mut self, nodes: &[Node], v: usize, msg: &Message, class: MsgClass, meta: u64, step: usize) {
        persist::on_release(self, nodes, v, msg, class, meta, step);
    }

    pub fn on_written(&mut self, nodes: &[Node], v: usize, snap: Option<&raft::eraftpb::Snapshot>, step: usize) {
        snap::on_written(self, nodes, v, snap, step);
        persist::on_written(self, nodes, v);
        // after the application's write the volatile image holds exactly the log (C07)
        if let Some(raw) = nodes[v].raw.as_ref() {
            let log = &raw.raft.raft_log;
            let (vf, vl) = nodes[v].store.with(|s| (s.vol.first_index(), s.vol.last_index()));
            if vl != log.last_index() && log.unstable.snapshot.is_none() {
                let id = nodes[v].id;
                self.violation(
                    "C07",
                    "entries-to-persist",
                    "written-log-differs-from-raft-log".into(),
                    format!("node {}: after writing the Ready storage spans [{}, {}] but the log ends at {}", id, vf, vl, log.last_index()),
                    id,
                    step,
                );
            }
        }
    }

    pub fn on_fsync(&mut self, nodes: &[Node], v: usize, from: u64, _step: usize) {
        persist::on_fsync(self, nodes, v, from);
    }

    pub fn on_read_issue(&mut self, nodes: &[Node], v: usize, ctx: &[u8], step: usize) {
        reads::on_read_issue(self, nodes, v, ctx, step);
    }

    pub fn on_applied(&mut self, nodes: &[Node], v: usize, e: &Entry, conf_changed: bool, removed_self: bool, step: usize) {
        let id = nodes[v].id;
        self.stats.inc("entries_applied");
        if removed_self {
            self.stats.inc("c09.nodes_applied_own_removal");
        }
        // C01 end-to-end: the application state equals the fold of the committed log
        let sm = nodes[v].store.with(|s| s.vol.sm);
        if let Some(g) = self.ghost_sm(e.index) {
            if g != sm {
                self.violation(
                    "C01",
                    "state-machine-agreement",
                    "applied-state-diverges".into(),
                    format!("node {}: state machine after applying index {} differs from the committed log's fold", id, e.index),
                    id,
                    step,
                );
                return;
            }
        }
        member::on_applied(self, nodes, v, e, conf_changed, step);
    }

    pub fn note_crash_point(&mut self, st: Stage) {
        let k = match st {
            Stage::Idle => "crash@idle",
            Stage::GotReady => "crash@after_ready",
            Stage::SentImmediate => "crash@after_send_immediate",
            Stage::Written => "crash@after_write",
            Stage::Synced => "crash@after_fsync",
            Stage::SentPersisted => "crash@after_send_persisted",
            Stage::AppliedRd => "crash@after_apply",
            Stage::Advanced => "crash@after_advance",
        };
        self.stats.inc(k);
    }

    /// Called just before node v loses its volatile state. Entries that exist only in the
    /// crashing node's memory (never durable there, held by no other running node) vanish with
    /// it: a later entry at the same (index, term) - possible only for a single-voter group
    /// that had not yet persisted its term - is not a log-matching conflict. If such an entry
    /// had been sent to anybody, its later arrival there conflicts with the new one and is
    /// reported then.
    pub fn before_crash(&mut self, nodes: &[Node], v: usize) {
        // a leadership that existed only in the volatile state of the crashing node: its term
        // was never persisted and no message of that term ever left the node (finding F13)
        if let Some(raw) = nodes[v].raw.as_ref() {
            if raw.raft.state == StateRole::Leader {
                let t = raw.raft.term;
                let dterm = nodes[v].store.with(|s| s.dur.hs.term);
                if dterm < t && self.g.per[v].told_term < t {
                    self.volatile_only_leaderships.insert((t, nodes[v].id));
                    self.stats.inc("c02.leaderships_lost_before_persisting_term");
                }
            }
        }
        if !self.g.per[v].shadow_valid {
            return;
        }
        let sh = self.g.per[v].shadow.clone();
        for (k, e) in sh.ents.iter().enumerate() {
            let idx = sh.base_index + 1 + k as u64;
            let durable = nodes[v].store.with(|s| s.dur.term(idx) == Some(e.0) && idx > s.dur.snap_index);
            if durable {
                continue;
            }
            let elsewhere = (0..nodes.len()).any(|w| {
                w != v
                    && nodes[w].up()
                    && self.g.per[w].shadow_valid
                    && matches!(self.g.per[w].shadow.get(idx), Some(x) if x.0 == e.0 && x.1 == e.1)
            });
            if !elsewhere {
                self.g.emap.remove(&(idx, e.0));
                self.stats.inc("c05.volatile_entries_lost_in_crash");
            }
        }
    }

    pub fn on_crash(&mut self, v: usize) {
        let p = &mut self.g.per[v];
        p.crashed = true;
        p.shadow_valid = false;
        p.prevote_grants.clear();
        p.flow.clear();
        self.stats.inc("crashes");
        // reads issued on this incarnation can never be answered here any more
        reads::retire_node(self, v);
    }

    pub fn on_compact(&mut self, v: usize, to: u64) {
        self.g.per[v].shadow.compact_to(to);
        self.stats.inc("compactions");
    }

    // ------------------------------------------------------------------ ghost tables

    fn cl_slot(&mut self, i: u64) -> &mut Option<ClEnt> {
        let i = i as usize;
        if self.g.cl.len() <= i {
            self.g.cl.resize(i + 1, None);
            self.g.committed_by.resize(i + 1, NO_TERM);
            self.g.sm.resize(i + 1, None);
        }
        &mut self.g.cl[i]
    }

    /// Records that some node reports (term, hash) as the committed entry at index i.
    /// Returns a description of the conflict if it differs from an earlier report.
    fn cl_report(&mut self, i: u64, term: u64, hash: Option<u64>, conf: bool) -> Option<String> {
        if i <= self.g.boot {
            return None;
        }
        let slot = self.cl_slot(i);
        match slot {
            None => {
                *slot = Some(ClEnt { term, hash, conf });
                None
            }
            Some(e) => {
                if e.term != term {
                    return Some(format!(
                        "index {} was reported committed with term {} and now with term {}",
                        i, e.term, term
                    ));
                }
                match (e.hash, hash) {
                    (Some(a), Some(b)) if a != b => Some(format!(
                        "index {} term {} was reported committed with two different payloads",
                        i, term
                    )),
                    (None, Some(b)) => {
                        e.hash = Some(b);
                        e.conf = conf;
                        None
                    }
                    _ => None,
                }
            }
        }
    }

    /// State-machine digest after applying 1..=i, if the ghost knows the whole prefix.
    pub fn ghost_sm(&mut self, i: u64) -> Option<u64> {
        let iu = i as usize;
        if iu >= self.g.sm.len() {
            return None;
        }
        if let Some(s) = self.g.sm[iu] {
            return Some(s);
        }
        // find the highest known digest below i
        let mut j = iu;
        while j > 0 && self.g.sm[j].is_none() {
            j -= 1;
        }
        let mut cur = self.g.sm[j]?;
        for k in j + 1..=iu {
            let e = self.g.cl[k].as_ref()?;
            let h = e.hash?;
            let mut f = Fp(cur ^ 0x5bd1e995);
            f.u(k as u64).u(e.term).u(h);
            cur = f.get();
            self.g.sm[k] = Some(cur);
        }
        Some(cur)
    }

    pub fn conf_at(&self, i: u64) -> Option<&Conf> {
        // configuration after applying everything up to i, if known
        let mut best = None;
        for (idx, c) in &self.g.conf_hist {
            if *idx <= i {
                best = Some(c);
            } else {
                break;
            }
        }
        best
    }

    // ------------------------------------------------------------------ restart / new

    pub fn on_new(&mut self, nodes: &[Node], v: usize, post: &View, step: usize) {
        let raw = nodes[v].raw.as_ref().unwrap();
        let id = nodes[v].id;
        // rebuild the shadow log from the real log (new incarnation: nothing unstable)
        let log = &raw.raft.raft_log;
        let first = log.first_index();
        let base_term = log.term(first - 1).unwrap_or(0);
        let mut sh = Shadow::default();
        sh.reset(first - 1, base_term);
        for e in log.all_entries() {
            sh.ents
                .push_back((e.term, entry_hash(&e), is_conf_entry(&e), e.get_data().len() as u32));
        }
        let restarted = self.g.per[v].crashed;
        {
            let p = &mut self.g.per[v];
            p.shadow = sh;
            p.shadow_valid = true;
            p.crashed = false;
            p.next_apply = post.applied + 1;
            p.last_hs = raw.raft.hard_state();
            p.ready_outstanding = 0;
            p.handed_max = post.applied;
            p.prevote_grants.clear();
            p.flow.clear();
            p.ghost_unc_valid = false;
            p.batch_on = nodes[v].cfg.batch_append;
        }
        if restarted {
            self.stats.inc("restarts");
        }
        // C05/E: every retained entry must agree with the canonical (index, term) map
        self.check_shadow_against_emap(v, id, step);
        // C01: commit index restored from the hard state
        self.c01_commit_range(nodes, v, self.g.boot.max(first - 1), post.committed, step, "restart");
        // C06: across a restart a node is never behind anything it told others
        persist::check_restart(self, nodes, v, post, step);
        // C09(c): configuration at the applied index
        // the configuration restored at start belongs to the application's durable applied index
        // (Config.applied may under-report it)
        let app_applied = nodes[v].store.with(|s| s.dur.applied);
        member::check_conf_at_applied(self, nodes, v, app_applied, "restart", step);
        self.c02_leader(id, post, step);
        if post.term > self.g.max_term {
            self.g.max_term = post.term;
        }
        self.g.per[v].max_term_seen = post.term;
    }

    fn check_shadow_against_emap(&mut self, v: usize, id: u64, step: usize) {
        let sh = self.g.per[v].shadow.clone();
        let mut prev = sh.base_term;
        for (k, e) in sh.ents.iter().enumerate() {
            let idx = sh.base_index + 1 + k as u64;
            self.emap_check(id, idx, e.0, e.1, prev, step);
            prev = e.0;
        }
    }

    fn emap_check(&mut self, id: u64, idx: u64, term: u64, hash: u64, prev_term: u64, step: usize) {
        self.stats.inc("c05.entry_chain_checks");
        match self.g.emap.get(&(idx, term)) {
            None => {
                self.g.emap.insert((idx, term), (hash, prev_term));
            }
            Some(&(h, p)) => {
                if h != hash {
                    self.violation(
                        "C05",
                        "log-matching",
                        "same-index-term-different-payload".into(),
                        format!(
                            "node {} holds an entry at (index {}, term {}) whose payload differs from the entry another log holds at the same (index, term)",
                            id, idx, term
                        ),
                        id,
                        step,
                    );
                } else if p != prev_term && idx > self.g.boot + 1 {
                    self.violation(
                        "C05",
                        "log-matching",
                        "same-index-term-different-predecessor".into(),
                        format!(
                            "node {}: entry (index {}, term {}) follows an entry of term {} here but of term {} in another log",
                            id, idx, term, prev_term, p
                        ),
                        id,
                        step,
                    );
                }
            }
        }
    }

    // ------------------------------------------------------------------ after every call

    pub fn after_call(
        &mut self,
        nodes: &[Node],
        v: usize,
        pre: &View,
        post: &View,
        op: &Op,
        res: &Res,
        step: usize,
    ) {
        self.stats.inc("calls");
        let id = nodes[v].id;
        let raw = nodes[v].raw.as_ref().unwrap();

        // ---- C06 (part): term never decreases within an incarnation
        if post.term < pre.term {
            self.violation(
                "C06",
                "term-monotone",
                "term-decreased".into(),
                format!("node {}: term went from {} to {} in {}", id, pre.term, post.term, op.short()),
                id,
                step,
            );
        }
        if post.term > self.g.max_term {
            self.g.max_term = post.term;
        }

        // stash what later monitors need from the state before this call
        if let Op::Step(x) = op {
            if x.get_msg_type() == MessageType::MsgSnapshot {
                let meta = x.get_snapshot().get_metadata();
                self.tmp_pre_match = Some(self.g.per[v].shadow.term(meta.index) == Some(meta.term));
                // acknowledgements this node has released for entries beyond the snapshot index
                self.tmp_acked_beyond = self.g.per[v].told_ack.range(meta.index + 1..).next().map(|(i, t)| (*i, *t));
            }
        }
        if let Op::ReportSnapshot(u, _) = op {
            self.tmp_flow_before = self.g.per[v].flow.get(u).cloned();
        }

        // ---- shadow log sync (C05) ----
        self.sync_shadow(nodes, v, pre, post, op, step);

        // ---- C01: commit-index channel ----
        if post.committed > pre.committed {
            self.c01_commit_range(nodes, v, pre.committed, post.committed, step, "commit-index");
            self.c04_commit_advance(nodes, v, pre, post, op, step);
        } else if post.committed < pre.committed {
            self.violation(
                "C01",
                "commit-monotone",
                "commit-index-decreased".into(),
                format!("node {}: commit index went from {} to {} in {}", id, pre.committed, post.committed, op.short()),
                id,
                step,
            );
        }
        if post.committed > self.g.gmax_commit {
            self.g.gmax_commit = post.committed;
        }

        // ---- C02 ----
        self.c02_leader(id, post, step);

        // ---- C03 ----
        self.c03_after_call(nodes, v, pre, post, op, step);

        // ---- others ----
        let new_msgs: &[Message] = match op {
            Op::Ready | Op::Advance | Op::AdvanceAppend => &[],
            _ => {
                let m = &raw.raft.msgs;
                if m.len() >= pre.msgs_len {
                    &m[pre.msgs_len..]
                } else {
                    &[]
                }
            }
        };
        persist::after_call(self, nodes, v, pre, post, op, res, new_msgs, step);
        member::after_call(self, nodes, v, pre, post, op, res, step);
        flow::after_call(self, nodes, v, pre, post, op, res, new_msgs, step);
        snap::after_call(self, nodes, v, pre, post, op, res, new_msgs, step);
        stab::after_call(self, nodes, v, pre, post, op, res, new_msgs, step);
        reads::after_call(self, nodes, v, pre, post, op, res, new_msgs, step);
        self.c20_rejections(nodes, v, pre, post, op, res, step);

        // periodic full verification of the shadow against the real log (C14 in situ)
        if nodes[v].calls % 97 == 0 {
            self.verify_shadow(nodes, v, step);
        }
    }

    fn c02_leader(&mut self, id: u64, post: &View, step: usize) {
        if post.state != StateRole::Leader {
            return;
        }
        match self.g.leader_of.get(&post.term) {
            None => {
                self.g.leader_of.insert(post.term, id);
                self.stats.inc("c02.leaders_elected");
            }
            Some(&other) if other != id => {
                let volatile = self.volatile_only_leaderships.contains(&(post.term, other));
                self.violation(
                    "C02",
                    "one-leader-per-term",
                    if volatile {
                        "two-leaders-same-term/first-leadership-never-persisted-nor-communicated".into()
                    } else {
                        "two-leaders-same-term".into()
                    },
                    format!("nodes {} and {} are both leader of term {}", other, id, post.term),
                    id,
                    step,
                );
            }
            _ => {}
        }
    }

    /// Walks the unstable part of the log of node v and folds every change into the shadow.
    fn sync_shadow(&mut self, nodes: &[Node], v: usize, pre: &View, post: &View, op: &Op, step: usize) {
        let id = nodes[v].id;
        let raw = nodes[v].raw.as_ref().unwrap();
        let u = &raw.raft.raft_log.unstable;
        if !self.g.per[v].shadow_valid {
            return;
        }
        // snapshot restore replaces the whole log
        if post.unstable_snap != pre.unstable_snap {
            if let Some((si, st)) = post.unstable_snap {
                if pre.state == StateRole::Leader && post.state == StateRole::Leader && pre.term == post.term {
                    self.violation(
                        "C05",
                        "leader-append-only",
                        "leader-restored-snapshot".into(),
                        format!("leader {} replaced its log by a snapshot at {}", id, si),
                        id,
                        step,
                    );
                }
                if si < pre.committed {
                    self.violation(
                        "C15",
                        "install-not-behind-commit",
                        "snapshot-behind-commit-installed".into(),
                        format!("node {} installed snapshot {} below its commit index {}", id, si, pre.committed),
                        id,
                        step,
                    );
                }
                self.g.per[v].shadow.reset(si, st);
                persist::on_truncate(self, v, si + 1);
                let rm = self.rm(v);
                let _ = rm;
            }
        }
        let same_leader_term =
            pre.state == StateRole::Leader && post.state == StateRole::Leader && pre.term == post.term;
        let mut idx = u.offset;
        let n_unstable = u.entries.len();
        for e in u.entries.iter() {
            if e.index != idx {
                self.violation(
                    "C14",
                    "unstable-contiguous",
                    "unstable-index-mismatch".into(),
                    format!("node {}: unstable entry at position for index {} carries index {}", id, idx, e.index),
                    id,
                    step,
                );
                return;
            }
            let h = entry_hash(e);
            let same = matches!(self.g.per[v].shadow.get(idx), Some(s) if s.0 == e.term && s.1 == h);
            if !same {
                let existed = self.g.per[v].shadow.get(idx).is_some();
                if existed {
                    self.stats.inc("c05.truncating_appends");
                    if same_leader_term && idx <= pre.last_index {
                        self.violation(
                            "C05",
                            "leader-append-only",
                            "leader-rewrote-own-entry".into(),
                            format!("leader {} (term {}) replaced its own entry at index {} in {}", id, post.term, idx, op.short()),
                            id,
                            step,
                        );
                    }
                    if idx <= pre.committed {
                        self.violation(
                            "C05",
                            "committed-prefix-immutable",
                            "committed-entry-replaced".into(),
                            format!("node {} replaced the entry at index {} although its commit index was {} ({})", id, idx, pre.committed, op.short()),
                            id,
                            step,
                        );
                    }
                }
                if existed {
                    persist::on_truncate(self, v, idx);
                }
                let sh = &mut self.g.per[v].shadow;
                sh.truncate_from(idx);
                if sh.last_index() + 1 != idx {
                    let sh_last = sh.last_index();
                    self.violation(
                        "C14",
                        "log-contiguous",
                        "log-gap".into(),
                        format!("node {}: entry at index {} does not follow the log end {}", id, idx, sh_last),
                        id,
                        step,
                    );
                    self.g.per[v].shadow_valid = false;
                    return;
                }
                let prev_term = sh.term(idx - 1).unwrap_or(0);
                sh.ents.push_back((e.term, h, is_conf_entry(e), e.get_data().len() as u32));
                if e.term < prev_term {
                    self.violation(
                        "C05",
                        "terms-monotone",
                        "log-term-decreases".into(),
                        format!("node {}: entry {} has term {} after term {}", id, idx, e.term, prev_term),
                        id,
                        step,
                    );
                }
                self.emap_check(id, idx, e.term, h, prev_term, step);
                let mut f = Fp::new();
                f.u(existed as u64)
                    .u(post.state as u64)
                    .u((idx <= pre.persisted) as u64)
                    .u((idx == pre.committed + 1) as u64)
                    .u((idx < u.offset + 1) as u64)
                    .u((e.term == post.term) as u64)
                    .u((e.term > prev_term) as u64)
                    .u(pre.last_index.saturating_sub(idx).min(6))
                    .u(op.kind());
                self.stats.hit("C05", f.get());
            }
            idx += 1;
        }
        let _ = n_unstable;
        if post.last_index != self.g.per[v].shadow.last_index() {
            // the stable part is only changed by the application; if the two disagree the
            // shadow is wrong or the log lost entries
            if post.last_index < self.g.per[v].shadow.last_index() {
                if same_leader_term {
                    self.violation(
                        "C05",
                        "leader-append-only",
                        "leader-log-shrank".into(),
                        format!("leader {} log shrank from {} to {} in {}", id, pre.last_index, post.last_index, op.short()),
                        id,
                        step,
                    );
                }
                if post.last_index < pre.committed {
                    self.violation(
                        "C05",
                        "committed-prefix-immutable",
                        "log-shorter-than-commit".into(),
                        format!("node {}: last index {} fell below commit index {}", id, post.last_index, pre.committed),
                        id,
                        step,
                    );
                }
                let li = post.last_index;
                persist::on_truncate(self, v, li + 1);
                self.g.per[v].shadow.truncate_from(li + 1);
            } else {
                self.verify_shadow(nodes, v, step);
            }
        }
    }

    /// Full comparison of the shadow with the real log (storage + unstable).
    pub fn verify_shadow(&mut self, nodes: &[Node], v: usize, step: usize) {
        let raw = match nodes[v].raw.as_ref() {
            Some(r) => r,
            None => return,
        };
        if !self.g.per[v].shadow_valid {
            return;
        }
        let id = nodes[v].id;
        let log = &raw.raft.raft_log;
        let first = log.first_index();
        let ents = log.all_entries();
        self.stats.inc("c14.full_log_comparisons");
        let sh = &mut self.g.per[v].shadow;
        sh.compact_to(first - 1);
        let mut bad = None;
        if sh.base_index != first - 1 {
            // the shadow starts later than the log (e.g. rebuilt after restore); only compare overlap
        }
        if ents.len() as u64 + first - 1 != sh.last_index() {
            bad = Some(format!(
                "log spans [{}, {}] but the sequence of appends seen at the boundary gives last index {}",
                first,
                first - 1 + ents.len() as u64,
                sh.last_index()
            ));
        } else {
            for e in &ents {
                if let Some(s) = sh.get(e.index) {
                    if s.0 != e.term || s.1 != entry_hash(e) {
                        bad = Some(format!("entry at index {} differs from what was appended there", e.index));
                        break;
                    }
                }
            }
        }
        if let Some(b) = bad {
            self.violation(
                "C14",
                "one-logical-log",
                "log-content-diverges-from-append-history".into(),
                format!("node {}: {}", id, b),
                id,
                step,
            );
        }
    }

    // ------------------------------------------------------------------ C01

    /// Commit-index channel: node v now reports indexes (lo, hi] as committed.
    fn c01_commit_range(&mut self, nodes: &[Node], v: usize, lo: u64, hi: u64, step: usize, how: &'static str) {
        let id = nodes[v].id;
        if !self.g.per[v].shadow_valid {
            return;
        }
        for i in lo + 1..=hi {
            let got = self.g.per[v].shadow.get(i).cloned();
            let rep = match got {
                Some((t, h, c, _)) => Some((t, Some(h), c)),
                None => {
                    // covered by a snapshot: only the boundary term is known
                    if i == self.g.per[v].shadow.base_index {
                        Some((self.g.per[v].shadow.base_term, None, false))
                    } else {
                        None
                    }
                }
            };
            if let Some((t, h, c)) = rep {
                self.stats.inc("c01.commit_reports");
                if let Some(conflict) = self.cl_report(i, t, h, c) {
                    self.violation(
                        "C01",
                        "commit-index-agreement",
                        format!("divergent-commit/{}", how),
                        format!("node {} ({}): {}", id, how, conflict),
                        id,
                        step,
                    );
                    return;
                }
            } else if i > self.g.per[v].shadow.last_index() {
                self.violation(
                    "C01",
                    "commit-within-log",
                    "commit-beyond-log".into(),
                    format!("node {} reports index {} committed but its log ends at {}", id, i, self.g.per[v].shadow.last_index()),
                    id,
                    step,
                );
                return;
            }
        }
        let mut f = Fp::new();
        f.u(hi.saturating_sub(lo)).u(how.len() as u64);
        if let Some(r) = nodes[v].raw.as_ref() {
            f.u(r.raft.state as u64).u(r.raft.term);
        }
        self.stats.hit("C01", f.get());
    }

    /// Apply hand-off channel (called from on_ready / on_light).
    pub fn c01_handoff(&mut self, id: u64, ents: &[Entry], step: usize) {
        for e in ents {
            self.stats.inc("c01.handoff_reports");
            if let Some(conflict) = self.cl_report(e.index, e.term, Some(entry_hash(e)), is_conf_entry(e)) {
                self.violation(
                    "C01",
                    "apply-handoff-agreement",
                    "divergent-apply".into(),
                    format!("node {} was handed an entry for apply: {}", id, conflict),
                    id,
                    step,
                );
                return;
            }
        }
    }

    /// Snapshot channel: a snapshot (in a Ready or in a MsgSnapshot) claims the state at `index`.
    pub fn c01_snapshot(&mut self, id: u64, snap: &raft::eraftpb::Snapshot, how: &'static str, step: usize) {
        let meta = snap.get_metadata();
        if meta.index == 0 || meta.index <= self.g.boot {
            return;
        }
        self.stats.inc("c01.snapshot_reports");
        if let Some(conflict) = self.cl_report(meta.index, meta.term, None, false) {
            self.violation(
                "C01",
                "snapshot-agreement",
                format!("divergent-snapshot-term/{}", how),
                format!("node {} {}: {}", id, how, conflict),
                id,
                step,
            );
            return;
        }
        if let Some((di, dsm)) = crate::sim::storage::decode_snap_data(snap.get_data()) {
            if di != meta.index {
                self.violation(
                    "C01",
                    "snapshot-agreement",
                    format!("snapshot-data-index-mismatch/{}", how),
                    format!("node {} {}: snapshot metadata index {} but data for index {}", id, how, meta.index, di),
                    id,
                    step,
                );
                return;
            }
            if let Some(g) = self.ghost_sm(meta.index) {
                self.stats.inc("c01.snapshot_state_checked");
                if g != dsm {
                    self.violation(
                        "C01",
                        "snapshot-agreement",
                        format!("snapshot-state-differs/{}", how),
                        format!(
                            "node {} {}: snapshot at index {} carries a state that is not the result of applying the committed log up to {}",
                            id, how, meta.index, meta.index
                        ),
                        id,
                        step,
                    );
                }
            }
        }
        // configuration carried by the snapshot (C09c / C15b): whoever produced a genuine
        // snapshot at this index has applied (and thereby recorded) every change up to it
        if let Some(c) = self.conf_at(meta.index).cloned() {
            let sc = Conf::from_cs(meta.get_conf_state());
            self.stats.inc("c09.snapshot_conf_checks");
            if sc != c {
                self.violation(
                    "C09",
                    "snapshot-conf",
                    format!("snapshot-conf-differs/{}", how),
                    format!("node {} {}: snapshot at {} carries configuration {:?}, applied log gives {:?}", id, how, meta.index, sc, c),
                    id,
                    step,
                );
            }
        }
    }

    /// True if every conf-change entry at or below `i` is known to the ghost (so that conf_at(i)
    /// is exact): all CL entries up to i are present with full content and have been applied
    /// by someone whenever they are conf changes.
    pub fn ghost_conf_known_through(&self, i: u64) -> bool {
        let last_rec = self.g.conf_hist.last().map(|x| x.0).unwrap_or(0);
        for k in (last_rec + 1)..=i {
            match self.g.cl.get(k as usize).and_then(|x| x.as_ref()) {
                Some(e) if e.hash.is_some() => {
                    if e.conf {
                        return false; // a conf entry nobody has applied yet
                    }
                }
                _ => return false,
            }
        }
        true
    }

    // ------------------------------------------------------------------ C03

    fn c03_after_call(&mut self, nodes: &[Node], v: usize, pre: &View, post: &View, op: &Op, step: usize) {
        let id = nodes[v].id;
        let raw = nodes[v].raw.as_ref().unwrap();
        // (a) leader completeness at the moment of becoming leader
        let became_leader = post.state == StateRole::Leader
            && (pre.state != StateRole::Leader || pre.term != post.term);
        if became_leader {
            self.c03_check_leader(v, id, post.term, 0, step);
            let mut f = Fp::new();
            post.fp(&mut f);
            f.u(self.g.gmax_commit - post.committed.min(self.g.gmax_commit));
            self.stats.hit("C03", f.get());
            self.stats.hit("C02", f.get());
        }
        // (b) grants only to up-to-date candidates; (c) requests advertise the real tail
        let msgs = &raw.raft.msgs;
        if msgs.len() > pre.msgs_len {
            for m in &msgs[pre.msgs_len..] {
                match m.get_msg_type() {
                    MessageType::MsgRequestVoteResponse | MessageType::MsgRequestPreVoteResponse => {
                        if let Op::Step(req) = op {
                            if !m.reject && is_vote_req(req.get_msg_type()) && m.to == req.from {
                                self.stats.inc("c03.grants_checked");
                                let ok = (req.log_term, req.index) >= (pre.last_term, pre.last_index);
                                let mut f = Fp::new();
                                f.u(req.get_msg_type() as u64)
                                    .u((req.log_term > pre.last_term) as u64)
                                    .u((req.index > pre.last_index) as u64)
                                    .u((req.index == pre.last_index) as u64)
                                    .u(pre.state as u64)
                                    .u((req.term > pre.term) as u64);
                                self.stats.hit("C03", f.get());
                                if !ok {
                                    self.violation(
                                        "C03",
                                        "election-restriction",
                                        format!("grant-to-stale-candidate/{:?}", req.get_msg_type()),
                                        format!(
                                            "node {} granted {:?} to {} whose log ends at (term {}, index {}) while its own ends at (term {}, index {})",
                                            id, req.get_msg_type(), req.from, req.log_term, req.index, pre.last_term, pre.last_index
                                        ),
                                        id,
                                        step,
                                    );
                                }
                            }
                        }
                    }
                    MessageType::MsgRequestVote | MessageType::MsgRequestPreVote => {
                        self.stats.inc("c03.requests_checked");
                        if m.index != post.last_index || m.log_term != post.last_term {
                            self.violation(
                                "C03",
                                "request-advertises-tail",
                                "vote-request-wrong-tail".into(),
                                format!(
                                    "node {} sent {:?} advertising (term {}, index {}) but its log ends at (term {}, index {})",
                                    id, m.get_msg_type(), m.log_term, m.index, post.last_term, post.last_index
                                ),
                                id,
                                step,
                            );
                        }
                        let ct = self.g.per[v].shadow.term(post.committed);
                        if m.commit != post.committed || (ct.is_some() && m.commit_term != ct.unwrap()) {
                            self.violation(
                                "C03",
                                "request-advertises-commit",
                                "vote-request-wrong-commit".into(),
                                format!(
                                    "node {} sent {:?} advertising commit ({}, term {}) but has commit {} with term {:?}",
                                    id, m.get_msg_type(), m.commit, m.commit_term, post.committed, ct
                                ),
                                id,
                                step,
                            );
                        }
                    }
                    _ => {}
                }
            }
        }
        // (d) count vote-driven commit fast-forwards
        if post.committed > pre.committed {
            if let Op::Step(m) = op {
                match m.get_msg_type() {
                    MessageType::MsgRequestVote
                    | MessageType::MsgRequestPreVote
                    | MessageType::MsgRequestVoteResponse
                    | MessageType::MsgRequestPreVoteResponse => self.stats.inc("c03.vote_commit_fast_forwards"),
                    _ => {}
                }
            }
        }
    }

    /// Leader `id` of term `term` must hold every entry committed by a leader of an earlier term.
    /// `only_from` restricts the check to indexes >= only_from (0 = all).
    fn c03_check_leader(&mut self, v: usize, id: u64, term: u64, only_from: u64, step: usize) {
        if !self.g.per[v].shadow_valid {
            return;
        }
        let lo = (self.g.boot + 1).max(only_from);
        let hi = self.g.cl.len() as u64;
        let mut checked = 0u64;
        for i in lo..hi {
            let by = self.g.committed_by[i as usize];
            if by == NO_TERM || by >= term {
                continue;
            }
            let e = match &self.g.cl[i as usize] {
                Some(e) => e.clone(),
                None => continue,
            };
            checked += 1;
            let sh = &self.g.per[v].shadow;
            if i <= sh.base_index {
                continue; // covered by the snapshot it starts from
            }
            let ok = match sh.get(i) {
                Some(s) => s.0 == e.term && e.hash.map_or(true, |h| h == s.1),
                None => false,
            };
            if !ok {
                self.violation(
                    "C03",
                    "leader-completeness",
                    "leader-misses-committed-entry".into(),
                    format!(
                        "node {} is leader of term {} but its log lacks the entry (index {}, term {}) committed by the leader of term {}",
                        id, term, i, e.term, by
                    ),
                    id,
                    step,
                );
                return;
            }
        }
        self.stats.add("c03.leader_entries_checked", checked);
        if checked > 0 {
            self.stats.inc("c03.leader_starts_checked_nonempty");
        }
    }

    // ------------------------------------------------------------------ C04

    fn c04_commit_advance(&mut self, nodes: &[Node], v: usize, pre: &View, post: &View, op: &Op, step: usize) {
        let id = nodes[v].id;
        let c = post.committed;
        let as_leader = post.state == StateRole::Leader;
        let was_leader_same = pre.state == StateRole::Leader && pre.term == post.term;
        if as_leader {
            // (i) own-term entry
            let t = self.g.per[v].shadow.term(c);
            let mut ok_leader = true;
            let mut why = String::new();
            if t != Some(post.term) {
                ok_leader = false;
                why = format!("entry at new commit index {} has term {:?}, leader term is {}", c, t, post.term);
            }
            // (ii) durable on a majority of every voter set of the active configuration
            if ok_leader {
                let conf = &*post.conf;
                let mut holders = BTreeSet::new();
                for n in nodes.iter() {
                    let holds = n.store.with(|s| s.dur.holds(c, post.term));
                    if holds {
                        holders.insert(n.id);
                    }
                }
                if !conf.is_quorum(&holders) {
                    ok_leader = false;
                    why = format!(
                        "index {} (term {}) is durable only on {:?}, not a majority of each voter set of {:?}",
                        c, post.term, holders, conf
                    );
                }
                let mut f = Fp::new();
                f.u(holders.len() as u64).u(c - pre.committed);
                conf.fp(&mut f);
                f.u(op.kind()).u(post.last_index - c).u(post.last_index - post.persisted.min(post.last_index));
                self.stats.hit("C04", f.get());
                if conf.is_joint() {
                    self.stats.inc("c04.leader_commit_advance_joint");
                }
                if post.persisted < post.last_index {
                    self.stats.inc("c04.leader_commit_advance_unpersisted_tail");
                }
                if nodes.iter().any(|n| !n.up() && conf.is_voter(n.id)) {
                    self.stats.inc("c04.leader_commit_advance_voter_down");
                }
            }
            self.stats.inc("c04.leader_commit_advances");
            if !ok_leader && !was_leader_same {
                // became leader in this very call: the advance may have happened as a follower
                if self.c04_nonleader_ok(pre.committed, c) {
                    self.stats.inc("c04.advance_in_election_call");
                    ok_leader = true;
                }
            }
            if !ok_leader {
                self.violation(
                    "C04",
                    "leader-commit-rule",
                    "commit-without-durable-quorum".into(),
                    format!("leader {} (term {}) advanced commit {} -> {} in {}: {}", id, post.term, pre.committed, c, op.short(), why),
                    id,
                    step,
                );
                return;
            }
            for i in pre.committed + 1..=c {
                let iu = i as usize;
                if self.g.committed_by.len() <= iu {
                    self.g.committed_by.resize(iu + 1, NO_TERM);
                }
                if self.g.committed_by[iu] > post.term {
                    self.g.committed_by[iu] = post.term;
                }
            }
            // C03 (a'): every current leader of a later term must hold what was just committed
            for (w, n) in nodes.iter().enumerate() {
                if w == v {
                    continue;
                }
                if let Some(r) = n.raw.as_ref() {
                    if r.raft.state == StateRole::Leader && r.raft.term > post.term {
                        self.c03_check_leader(w, n.id, r.raft.term, pre.committed + 1, step);
                    }
                }
            }
        } else {
            // (iii) a non-leader never commits beyond what some leader committed
            let kind = match op {
                Op::Step(m) => match m.get_msg_type() {
                    MessageType::MsgAppend => "c04.nonleader_advance.append",
                    MessageType::MsgHeartbeat => "c04.nonleader_advance.heartbeat",
                    MessageType::MsgSnapshot => "c04.nonleader_advance.snapshot",
                    MessageType::MsgReadIndexResp => "c04.nonleader_advance.read_index_resp",
                    MessageType::MsgRequestVote
                    | MessageType::MsgRequestPreVote
                    | MessageType::MsgRequestVoteResponse
                    | MessageType::MsgRequestPreVoteResponse => "c04.nonleader_advance.vote_fast_forward",
                    _ => "c04.nonleader_advance.other",
                },
                _ => "c04.nonleader_advance.other",
            };
            self.stats.inc(kind);
            let mut f = Fp::new();
            f.u(op.kind()).u(c - pre.committed).u(post.state as u64).u(post.last_index - c);
            self.stats.hit("C04", f.get());
            if !self.c04_nonleader_ok(pre.committed, c) {
                self.violation(
                    "C04",
                    "nonleader-commit-bound",
                    format!("nonleader-commit-beyond-leader/{}", kind),
                    format!(
                        "node {} ({:?}) advanced commit {} -> {} in {} but no leader has committed index {}",
                        id, post.state, pre.committed, c, op.short(), c
                    ),
                    id,
                    step,
                );
            }
        }
    }

    fn c04_nonleader_ok(&self, lo: u64, hi: u64) -> bool {
        for i in lo + 1..=hi {
            if i <= self.g.boot {
                continue;
            }
            match self.g.committed_by.get(i as usize) {
                Some(&t) if t != NO_TERM => {}
                _ => return false,
            }
        }
        true
    }

    // ------------------------------------------------------------------ C20 rejection half

    fn c20_rejections(&mut self, nodes: &[Node], v: usize, pre: &View, post: &View, op: &Op, res: &Res, step: usize) {
        let id = nodes[v].id;
        if let Op::Step(m) = op {
            let t = m.get_msg_type();
            let local = raft::raw_node::is_local_msg(t);
            let is_resp = matches!(
                t,
                MessageType::MsgAppendResponse
                    | MessageType::MsgRequestVoteResponse
                    | MessageType::MsgHeartbeatResponse
                    | MessageType::MsgRequestPreVoteResponse
            );
            let stranger = is_resp && !pre.conf.members().contains(&m.from);
            if local || stranger {
                let want = if local { "StepLocalMsg" } else { "StepPeerNotFound" };
                self.stats.inc(if local { "c20.local_offered" } else { "c20.stranger_responses" });
                let mut f = Fp::new();
                f.u(t as u64).u(pre.state as u64).u(local as u64);
                cluster_fp(nodes, &mut f);
                self.stats.hit("C20", f.get());
                let rejected = matches!(res, Res::Err(e) if e.contains(want));
                let unchanged = view_digest(pre) == view_digest(post);
                if !rejected || !unchanged {
                    self.violation(
                        "C20",
                        "reject-local-and-strangers",
                        format!("not-rejected/{:?}", t),
                        format!(
                            "node {}: {} {:?} from {} gave {:?} (expected Err({})), state changed: {}",
                            id,
                            if local { "local message" } else { "response from non-member" },
                            t,
                            m.from,
                            res,
                            want,
                            !unchanged
                        ),
                        id,
                        step,
                    );
                }
            }
        }
    }
}

/// Abstract fingerprint of the whole cluster (roles, term order, log/commit gaps, configuration
/// shapes, who is down), folded into a monitor's own case fingerprint so that the number of
/// distinct cases reflects distinct cluster situations, not just distinct local shapes.
pub fn cluster_fp(nodes: &[Node], f: &mut Fp) {
    let mut min_term = u64::MAX;
    let mut max_commit = 0;
    for n in nodes {
        if let Some(r) = n.raw.as_ref() {
            min_term = min_term.min(r.raft.term);
            max_commit = max_commit.max(r.raft.raft_log.committed);
        }
    }
    for n in nodes {
        match n.raw.as_ref() {
            None => {
                f.u(99);
            }
            Some(r) => {
                let log = &r.raft.raft_log;
                f.u(r.raft.state as u64)
                    .u((r.raft.term - min_term).min(3))
                    .u((max_commit - log.committed).min(3))
                    .u((log.last_index() - log.committed.min(log.last_index())).min(3))
                    .u((log.first_index() > 1) as u64)
                    .u(n.conf.voters.len() as u64)
                    .u(n.conf.is_joint() as u64)
                    .u((r.raft.leader_id != 0) as u64);
            }
        }
    }
}

pub fn view_digest(v: &View) -> u64 {
    let mut f = Fp::new();
    f.u(v.term)
        .u(v.vote)
        .u(v.leader_id)
        .u(v.state as u64)
        .u(v.committed)
        .u(v.applied)
        .u(v.persisted)
        .u(v.last_index)
        .u(v.last_term)
        .u(v.first_index)
        .u(v.unstable_offset)
        .u(v.unstable_len as u64)
        .u(v.lead_transferee.unwrap_or(0))
        .u(v.pending_conf_index)
        .u(v.election_elapsed as u64)
        .u(v.pending_request_snapshot)
        .u(v.uncommitted_size as u64)
        .u(v.msgs_len as u64)
        .u(v.read_states_len as u64)
        .u(v.pending_reads as u64);
    v.conf.fp(&mut f);
    f.get()
}
