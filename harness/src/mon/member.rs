//! C09: membership-change discipline; configuration is a function of the applied log.

use protobuf::Message as PbMessage;
use raft::eraftpb::{ConfChange, ConfChangeV2, Entry, EntryType, MessageType};
use raft::StateRole;

use super::Monitors;
use crate::model::confalg;
use crate::rng::Fp;
use crate::sim::cluster::{raft_proto_into_v2, Node};
use crate::sim::types::*;

pub fn parse_cc(e: &Entry) -> Option<ConfChangeV2> {
    match e.get_entry_type() {
        EntryType::EntryConfChange => {
            let mut c = ConfChange::default();
            c.merge_from_bytes(e.get_data()).ok()?;
            Some(raft_proto_into_v2(c))
        }
        EntryType::EntryConfChangeV2 => {
            let mut c = ConfChangeV2::default();
            c.merge_from_bytes(e.get_data()).ok()?;
            Some(c)
        }
        _ => None,
    }
}

/// Number of conf-change entries of the shadow log of v in (lo, hi], split by own-term / other.
fn conf_entries_in(m: &Monitors, v: usize, lo: u64, hi: u64, own_term: u64, nodes: &[Node]) -> (u32, u32) {
    let sh = &m.g.per[v].shadow;
    let mut own = 0;
    let mut other = 0;
    let start = lo.max(sh.base_index) + 1;
    let _ = nodes;
    let mut i = start;
    while i <= hi {
        if let Some(e) = sh.get(i) {
            if e.2 {
                if e.0 == own_term {
                    own += 1;
                } else {
                    other += 1;
                }
            }
        }
        i += 1;
    }
    (own, other)
}

pub fn after_call(
    m: &mut Monitors,
    nodes: &[Node],
    v: usize,
    pre: &View,
    post: &View,
    op: &Op,
    res: &Res,
    step: usize,
) {
    let id = nodes[v].id;
    let raw = nodes[v].raw.as_ref().unwrap();
    if !m.g.per[v].shadow_valid {
        return;
    }

    // ---------- (a) proposal-time discipline on a leader
    let is_proposal = match op {
        Op::Propose(_) | Op::ProposeConf(..) => true,
        Op::Step(x) => x.get_msg_type() == MessageType::MsgPropose,
        _ => false,
    };
    let leader_same = pre.state == StateRole::Leader && post.state == StateRole::Leader && pre.term == post.term;
    if is_proposal && leader_same && post.last_index > pre.last_index {
        let wanted_conf = match op {
            Op::ProposeConf(..) => true,
            Op::Step(x) => x.get_entries().iter().any(is_conf_entry),
            _ => false,
        };
        if wanted_conf {
            m.stats.inc("c09.conf_proposals_on_leader");
        }
        // entries appended by this call
        let log = &raw.raft.raft_log;
        for i in pre.last_index + 1..=post.last_index {
            let e = {
                let u = &log.unstable;
                if i >= u.offset && ((i - u.offset) as usize) < u.entries.len() {
                    Some(u.entries[(i - u.offset) as usize].clone())
                } else {
                    None
                }
            };
            let e = match e {
                Some(e) => e,
                None => continue,
            };
            if !is_conf_entry(&e) {
                if wanted_conf {
                    m.stats.inc("c09.conf_proposals_replaced_by_empty");
                }
                continue;
            }
            m.stats.inc("c09.conf_entries_appended");
            // legality evaluated on the state before the call
            let (own, other) = conf_entries_in(m, v, pre.applied, pre.last_index, pre.term, nodes);
            let cc = parse_cc(&e);
            let want_leave = cc.as_ref().map(|c| c.get_changes().is_empty()).unwrap_or(false);
            let joint = pre.conf.is_joint();
            let mut f = Fp::new();
            f.u(1).u(own as u64).u(other as u64).u(want_leave as u64).u(joint as u64);
            m.stats.hit("C09", f.get());
            let mut why = None;
            if own + other > 0 {
                why = Some(format!(
                    "the log already holds {} membership-change entr(y/ies) beyond the applied index {}",
                    own + other,
                    pre.applied
                ));
            } else if joint && !want_leave {
                why = Some("the configuration is already joint and the change is not a leave".to_string());
            } else if !joint && want_leave {
                why = Some("the configuration is not joint and the change is a leave".to_string());
            }
            if let Some(w) = why {
                m.violation(
                    "C09",
                    "proposal-discipline",
                    "illegal-conf-change-kept".into(),
                    format!("leader {} (term {}) appended a membership change at index {} although {}", id, pre.term, i, w),
                    id,
                    step,
                );
                return;
            }
        }
    }
    // own-term count after every call on a leader (auto-leave entries included)
    if post.state == StateRole::Leader {
        let (own, other) = conf_entries_in(m, v, post.applied, post.last_index, post.term, nodes);
        if own > 1 {
            m.violation(
                "C09",
                "one-at-a-time",
                "two-own-term-conf-entries-unapplied".into(),
                format!(
                    "leader {} (term {}) holds {} membership-change entries of its own term beyond applied index {}",
                    id, post.term, own, post.applied
                ),
                id,
                step,
            );
            return;
        }
        if own + other > 1 {
            m.stats.inc("c09.inherited_multi_pending");
        }
        if own == 1 {
            m.stats.inc("c09.leader_calls_with_pending_own_change");
        }
    }

    // ---------- (b) no election while a committed membership change is unapplied
    let campaigning = matches!(post.state, StateRole::Candidate | StateRole::PreCandidate);
    let started = (campaigning && (pre.state != post.state || pre.term != post.term))
        || (post.state == StateRole::Leader && pre.state == StateRole::Follower);
    if campaigning || started {
        let floor = post.applied.max(post.unstable_snap.map(|s| s.0).unwrap_or(0));
        let (o, t) = conf_entries_in(m, v, floor, post.committed, u64::MAX, nodes);
        if started {
            m.stats.inc("c09.elections_started");
            // evaluated on the state before the call as well
            let floor_pre = pre.applied.max(pre.unstable_snap.map(|s| s.0).unwrap_or(0));
            let (o2, t2) = conf_entries_in(m, v, floor_pre, pre.committed, u64::MAX, nodes);
            let mut f = Fp::new();
            f.u(2).u((o2 + t2) as u64).u(pre.committed - floor_pre.min(pre.committed)).u(op.kind());
            m.stats.hit("C09", f.get());
            if o2 + t2 > 0 {
                m.violation(
                    "C09",
                    "no-election-with-unapplied-change",
                    "campaign-with-committed-unapplied-conf-change".into(),
                    format!(
                        "node {} started an election in {} while a committed membership change in ({}, {}] was unapplied",
                        id,
                        op.short(),
                        floor_pre,
                        pre.committed
                    ),
                    id,
                    step,
                );
                return;
            }
        }
        if campaigning && o + t > 0 {
            m.violation(
                "C09",
                "no-election-with-unapplied-change",
                "candidate-with-committed-unapplied-conf-change".into(),
                format!(
                    "node {} is {:?} after {} while a committed membership change in ({}, {}] is unapplied",
                    id,
                    post.state,
                    op.short(),
                    floor,
                    post.committed
                ),
                id,
                step,
            );
            return;
        }
    }

    // ---------- (d) only voters start elections on their own
    if started {
        let own_initiative = match op {
            Op::Tick => true,
            Op::Step(x) => x.get_msg_type() == MessageType::MsgTimeoutNow,
            _ => false,
        };
        if own_initiative {
            m.stats.inc("c09.own_initiative_elections");
            if !pre.conf.is_voter(id) {
                m.violation(
                    "C09",
                    "non-voter-never-campaigns",
                    format!("non-voter-campaigned/{}", if matches!(op, Op::Tick) { "timeout" } else { "timeout-now" }),
                    format!("node {} is not a voter of {:?} but started an election in {}", id, pre.conf, op.short()),
                    id,
                    step,
                );
                return;
            }
        }
    }
    // count campaign attempts while a change is pending somewhere
    if matches!(op, Op::Tick | Op::Campaign) && !started && pre.state != StateRole::Leader {
        if let Res::Bool(true) | Res::Ok = res {
            m.stats.inc("c09.campaign_attempts_not_started");
        }
    }
}

/// The application of node v finished applying entry e (apply_conf_change already called
/// when e is a membership change).
pub fn on_applied(
    m: &mut Monitors,
    nodes: &[Node],
    v: usize,
    e: &Entry,
    conf_changed: bool,
    step: usize,
) {
    let id = nodes[v].id;
    if !is_conf_entry(e) {
        return;
    }
    m.stats.inc("c09.conf_entries_applied");
    let now = (*nodes[v].conf).clone();
    let cc = parse_cc(e);
    // independent recomputation from the reference algebra
    let prev = m.conf_at(e.index - 1).cloned();
    let rec = m.g.conf_hist.iter().find(|(i, _)| *i == e.index).map(|x| x.1.clone());
    let mut f = Fp::new();
    f.u(3).u(conf_changed as u64).u(rec.is_some() as u64);
    now.fp(&mut f);
    m.stats.hit("C09", f.get());
    match rec {
        Some(c) => {
            if c != now {
                m.violation(
                    "C09",
                    "conf-function-of-applied-log",
                    "conf-differs-at-same-applied-index".into(),
                    format!("node {} has configuration {:?} after applying index {}, another node had {:?}", id, now, e.index, c),
                    id,
                    step,
                );
            }
        }
        None => {
            if let (Some(prev), Some(cc)) = (prev, cc.as_ref()) {
                let model = confalg::apply_v2(&prev, cc);
                match model {
                    Ok(expect) => {
                        if conf_changed {
                            m.stats.inc("c09.applied_changes_accepted");
                            if cc.get_changes().is_empty() {
                                m.stats.inc("c09.leave_joint_applied");
                            }
                            if expect.is_joint() {
                                m.stats.inc("c09.enter_joint_applied");
                            }
                        }
                        if expect != now {
                            m.violation(
                                "C09",
                                "conf-function-of-applied-log",
                                "conf-differs-from-reference-algebra".into(),
                                format!(
                                    "node {}: applying {:?} at index {} on {:?} gave {:?}, reference gives {:?}",
                                    id,
                                    raft_proto_stringify(cc),
                                    e.index,
                                    prev,
                                    now,
                                    expect
                                ),
                                id,
                                step,
                            );
                        }
                    }
                    Err(_) => {
                        m.stats.inc("c09.applied_changes_rejected");
                        if now != prev {
                            m.violation(
                                "C09",
                                "conf-function-of-applied-log",
                                "rejected-change-altered-conf".into(),
                                format!("node {}: change at index {} is invalid on {:?} yet configuration became {:?}", id, e.index, prev, now),
                                id,
                                step,
                            );
                        }
                    }
                }
            }
            m.g.conf_hist.push((e.index, now));
            m.g.conf_hist.sort_by_key(|x| x.0);
        }
    }
}

/// Node v is at applied index `applied` (restart or snapshot install): its configuration
/// must be the one every other node has at that index.
pub fn check_conf_at_applied(m: &mut Monitors, nodes: &[Node], v: usize, applied: u64, how: &'static str, step: usize) {
    let id = nodes[v].id;
    let now = (*nodes[v].conf).clone();
    if let Some(c) = m.conf_at(applied).cloned() {
        // exact only if every conf entry <= applied has been applied by someone (then it is recorded)
        m.stats.inc("c09.conf_at_applied_checks");
        let unknown_pending = (m.g.conf_hist.last().map(|x| x.0).unwrap_or(0) + 1..=applied).any(|k| {
            match m.g.cl.get(k as usize).and_then(|x| x.as_ref()) {
                Some(e) => e.conf && e.hash.is_some(),
                None => false,
            }
        });
        if unknown_pending {
            return;
        }
        if c != now && !(now == Conf::default()) {
            m.violation(
                "C09",
                "conf-function-of-applied-log",
                format!("conf-differs-after-{}", how),
                format!("node {} at applied index {} ({}) has configuration {:?}, applied log gives {:?}", id, applied, how, now, c),
                id,
                step,
            );
        }
    }
}
