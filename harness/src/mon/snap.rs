//! C15: snapshot install / compaction.

use raft::eraftpb::{Message, MessageType, Snapshot};
use raft::{ProgressState, StateRole};

use super::Monitors;
use crate::rng::Fp;
use crate::sim::cluster::Node;
use crate::sim::types::*;

pub fn after_call(
    m: &mut Monitors,
    nodes: &[Node],
    v: usize,
    pre: &View,
    post: &View,
    op: &Op,
    _res: &Res,
    new_msgs: &[Message],
    step: usize,
) {
    let id = nodes[v].id;
    let raw = nodes[v].raw.as_ref().unwrap();

    // ---------- (a)/(b) install decision on the receiver
    if let Op::Step(x) = op {
        if x.get_msg_type() == MessageType::MsgSnapshot && x.term >= pre.term {
            let meta = x.get_snapshot().get_metadata();
            let (i, t) = (meta.index, meta.term);
            let cs = Conf::from_cs(meta.get_conf_state());
            let restored = post.unstable_snap == Some((i, t)) && pre.unstable_snap != Some((i, t));
            let member = cs.members().contains(&id);
            let pre_match = m.tmp_pre_match.take().unwrap_or(false);
            let requested = pre.pending_request_snapshot != 0;
            let stale = i < pre.committed;
            m.stats.inc("c15.snapshots_stepped");
            let mut f = Fp::new();
            f.u(restored as u64)
                .u(member as u64)
                .u(pre_match as u64)
                .u(requested as u64)
                .u(stale as u64)
                .u(cs.is_joint() as u64)
                .u(pre.state as u64)
                .u((i > pre.last_index) as u64)
                .u((i >= pre.first_index) as u64)
                .u((x.term > pre.term) as u64);
            super::cluster_fp(nodes, &mut f);
            m.stats.hit("C15", f.get());
            if restored {
                m.stats.inc("c15.installs");
                if cs.is_joint() {
                    m.stats.inc("c15.installs_joint_conf");
                }
                if requested {
                    m.stats.inc("c15.installs_requested");
                }
                let mut why = None;
                if stale {
                    why = Some(("install-behind-commit", format!("snapshot index {} is behind commit index {}", i, pre.committed)));
                } else if !member {
                    why = Some(("install-non-member", format!("snapshot configuration {:?} does not list the node", cs)));
                } else if pre_match && !requested {
                    why = Some((
                        "install-discards-matching-log",
                        format!("local log already matched ({}, {}) and no snapshot was requested", i, t),
                    ));
                } else if let (true, Some((ai, at))) = (pre_match, m.tmp_acked_beyond) {
                    // requested or not: a log that matches the snapshot holds, after it, entries of
                    // the same history; the ones this node has acknowledged are counted by the
                    // leader and must survive the install
                    why = Some((
                        "install-discards-acknowledged-entries",
                        format!(
                            "local log matched ({}, {}) and the node had acknowledged (index {}, term {}) beyond it; the install discarded it",
                            i, t, ai, at
                        ),
                    ));
                }
                // (b) state right after the restore
                if why.is_none() {
                    if post.committed != i || post.last_index != i || post.last_term != t {
                        why = Some((
                            "install-wrong-log-state",
                            format!(
                                "after restore commit={} last=({}, term {}) but snapshot is ({}, term {})",
                                post.committed, post.last_index, post.last_term, i, t
                            ),
                        ));
                    } else if *post.conf != cs {
                        why = Some((
                            "install-wrong-conf",
                            format!("after restore configuration is {:?}, snapshot carries {:?}", post.conf, cs),
                        ));
                    }
                }
                if let Some((sig, w)) = why {
                    m.violation("C15", "install-decision", sig.into(), format!("node {}: {}", id, w), id, step);
                    return;
                }
            } else {
                let log_same = post.last_index == pre.last_index
                    && post.last_term == pre.last_term
                    && post.first_index == pre.first_index
                    && post.unstable_snap == pre.unstable_snap;
                if stale || !member {
                    m.stats.inc(if stale { "c15.ignored_stale" } else { "c15.ignored_non_member" });
                    if !log_same || post.committed != pre.committed || *post.conf != *pre.conf {
                        m.violation(
                            "C15",
                            "install-decision",
                            "ignored-snapshot-changed-state".into(),
                            format!("node {}: stale/non-member snapshot ({}, {}) changed log, commit or configuration", id, i, t),
                            id,
                            step,
                        );
                        return;
                    }
                } else if pre_match && !requested {
                    m.stats.inc("c15.fast_forward_only");
                    if !log_same || post.committed != pre.committed.max(i) {
                        m.violation(
                            "C15",
                            "install-decision",
                            "matching-snapshot-did-not-just-advance-commit".into(),
                            format!(
                                "node {}: snapshot ({}, {}) matched the log; expected commit {} and untouched log, got commit {} last {}",
                                id,
                                i,
                                t,
                                pre.committed.max(i),
                                post.committed,
                                post.last_index
                            ),
                            id,
                            step,
                        );
                        return;
                    }
                } else if pre.state == StateRole::Follower || post.state == StateRole::Follower {
                    // member, not stale, (not matching or requested): it should have been installed
                    m.stats.inc("c15.not_installed_other");
                }
            }
        }
    }
    m.tmp_pre_match = None;
    m.tmp_acked_beyond = None;

    // ---------- ghost: which followers asked this leader for a snapshot during this leadership
    let became_leader = post.state == StateRole::Leader && (pre.state != StateRole::Leader || pre.term != post.term);
    if became_leader || post.state != StateRole::Leader {
        m.g.per[v].snap_asked.clear();
    }
    if post.state == StateRole::Leader {
        if let Op::Step(x) = op {
            if x.get_msg_type() == MessageType::MsgAppendResponse && x.request_snapshot != 0 && x.term == post.term {
                m.g.per[v].snap_asked.insert(x.from);
                m.stats.inc("c15.snapshot_requests_stepped");
            }
        }
    }

    // ---------- (c) leader side: why a snapshot is sent
    if post.state == StateRole::Leader {
        for x in new_msgs {
            if x.get_msg_type() != MessageType::MsgSnapshot {
                continue;
            }
            m.stats.inc("c15.snapshots_emitted");
            let u = x.to;
            let si = x.get_snapshot().get_metadata().index;
            if let Some(pr) = raw.raft.prs().get(u) {
                let first = post.first_index;
                let needed_gone = pr.next_idx < first;
                let asked = pr.pending_request_snapshot != 0;
                // the library's flag must be backed by a request received in this leadership
                let asked_here = m.g.per[v].snap_asked.contains(&u);
                if asked {
                    m.stats.inc("c15.snapshots_emitted_on_request");
                }
                if asked && !asked_here && !needed_gone {
                    m.violation(
                        "C15",
                        "snapshot-only-when-needed",
                        "snapshot-sent-for-request-of-earlier-leadership".into(),
                        format!(
                            "leader {} (term {}) sent a snapshot ({}) to {} whose next index {} is still in the log [{}..]; {} asked for no snapshot during this leadership (the request flag is left over from an earlier one)",
                            id, post.term, si, u, pr.next_idx, first, u
                        ),
                        id,
                        step,
                    );
                    return;
                }
                let mut f = Fp::new();
                f.u(9).u(needed_gone as u64).u(asked as u64).u((si == post.committed) as u64);
                super::cluster_fp(nodes, &mut f);
                m.stats.hit("C15", f.get());
                if !needed_gone && !asked {
                    m.violation(
                        "C15",
                        "snapshot-only-when-needed",
                        "snapshot-sent-although-entries-available".into(),
                        format!(
                            "leader {} sent a snapshot ({}) to {} whose next index {} is still in the log [{}..] and who did not ask for one",
                            id, si, u, pr.next_idx, first
                        ),
                        id,
                        step,
                    );
                    return;
                }
                if asked && si < pr.pending_request_snapshot {
                    m.violation(
                        "C15",
                        "snapshot-only-when-needed",
                        "snapshot-below-requested-index".into(),
                        format!("leader {} sent snapshot {} to {} who asked for at least {}", id, si, u, pr.pending_request_snapshot),
                        id,
                        step,
                    );
                    return;
                }
                if pr.state != ProgressState::Snapshot || pr.pending_snapshot != si {
                    m.violation(
                        "C15",
                        "snapshot-progress",
                        "snapshot-sent-without-snapshot-state".into(),
                        format!("leader {} sent snapshot {} to {} but tracks it as {:?} pending {}", id, si, u, pr.state, pr.pending_snapshot),
                        id,
                        step,
                    );
                    return;
                }
            }
        }
        // resumption after a status report
        if let Op::ReportSnapshot(u, ok) = op {
            if pre.state == StateRole::Leader && pre.term == post.term {
                if let (Some(pr), Some(rec)) = (raw.raft.prs().get(*u), m.tmp_flow_before.take()) {
                    if rec.last_state == ProgressState::Snapshot {
                        m.stats.inc(if *ok { "c15.reports_finish" } else { "c15.reports_failure" });
                        let expect_next = if *ok {
                            rec.last_matched.max(rec.last_pending_snapshot) + 1
                        } else {
                            rec.last_matched + 1
                        };
                        if pr.state != ProgressState::Probe || pr.next_idx != expect_next {
                            m.violation(
                                "C15",
                                "resume-after-snapshot",
                                format!("wrong-resume-after-{}", if *ok { "finish" } else { "failure" }),
                                format!(
                                    "leader {}: after snapshot report for {} progress is {:?} next {}, expected Probe next {}",
                                    id, u, pr.state, pr.next_idx, expect_next
                                ),
                                id,
                                step,
                            );
                            return;
                        }
                    }
                }
            }
        }
    }
    m.tmp_flow_before = None;
}

/// Snapshots inside messages handed to the application (leaving the node).
pub fn on_messages_handed(m: &mut Monitors, nodes: &[Node], v: usize, msgs: &[&Message], step: usize) {
    let id = nodes[v].id;
    for x in msgs {
        if x.get_msg_type() == MessageType::MsgSnapshot {
            m.c01_snapshot(id, x.get_snapshot(), "msg-snapshot", step);
        }
    }
}

/// The application of node v has written the Ready (and installed its snapshot, if any).
pub fn on_written(m: &mut Monitors, nodes: &[Node], v: usize, snap: Option<&Snapshot>, step: usize) {
    let id = nodes[v].id;
    if let Some(s) = snap {
        let i = s.get_metadata().index;
        let (sm, applied) = nodes[v].store.with(|st| (st.vol.sm, st.vol.applied));
        if let Some(g) = m.ghost_sm(i) {
            m.stats.inc("c15.installed_state_checked");
            if g != sm || applied != i {
                m.violation(
                    "C15",
                    "state-after-install",
                    "installed-state-differs-from-applied-log".into(),
                    format!("node {}: application state after installing snapshot {} differs from applying the log up to {}", id, i, i),
                    id,
                    step,
                );
            }
        }
        super::member::check_conf_at_applied(m, nodes, v, i, "snapshot-install", step);
    }
}
