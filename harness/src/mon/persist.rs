//! C06 (promises survive crashes, persist-before-send) and C07 (Ready contract).

use raft::eraftpb::{Entry, HardState, Message, MessageType};
use raft::{LightReady, Ready, StateRole};

use super::Monitors;
use crate::rng::Fp;
use crate::sim::cluster::Node;
use crate::sim::types::*;

/// Per-incarnation bookkeeping for the Ready contract.
#[derive(Default)]
pub struct ReadyModel {
    /// (ready number, last entry (index, term)) for readies handed out and not yet reported persisted.
    pub outstanding: Vec<(u64, Option<(u64, u64)>, Option<u64>)>,
    /// Highest log index the application has reported persisted (and that was not truncated since).
    pub notified: u64,
    pub last_ss: (u64, u64),
    /// Creation-time metadata for messages sitting in raft.msgs (aligned with that queue).
    pub msg_meta: std::collections::VecDeque<u64>,
}

impl Monitors {
    pub fn rm(&mut self, v: usize) -> &mut ReadyModel {
        while self.ready_models.len() <= v {
            self.ready_models.push(ReadyModel::default());
        }
        &mut self.ready_models[v]
    }
}

pub fn on_new(m: &mut Monitors, v: usize, post: &View) {
    let rm = m.rm(v);
    rm.outstanding.clear();
    rm.notified = post.last_index;
    rm.last_ss = (post.leader_id, post.state as u64);
    rm.msg_meta.clear();
}

/// Called when the shadow log of v is truncated from idx (a conflicting append) or replaced.
pub fn on_truncate(m: &mut Monitors, v: usize, idx: u64) {
    let rm = m.rm(v);
    if rm.notified >= idx {
        rm.notified = idx - 1;
    }
    let p = &mut m.g.per[v];
    let _ = p.told_ack.split_off(&idx);
}

pub fn after_call(
    m: &mut Monitors,
    nodes: &[Node],
    v: usize,
    pre: &View,
    post: &View,
    op: &Op,
    _res: &Res,
    new_msgs: &[Message],
    step: usize,
) {
    let id = nodes[v].id;
    // creation-time metadata for new messages: for append acks, the term the log has at the
    // acknowledged index right now.
    if !new_msgs.is_empty() {
        let mut metas = Vec::with_capacity(new_msgs.len());
        for msg in new_msgs {
            let meta = if msg.get_msg_type() == MessageType::MsgAppendResponse && !msg.reject {
                m.g.per[v].shadow.term(msg.index).unwrap_or(0)
            } else {
                0
            };
            metas.push(meta);
        }
        let rm = m.rm(v);
        rm.msg_meta.extend(metas);
    }
    // persistence notifications
    match op {
        Op::Advance | Op::AdvanceAppend => {
            let rm = m.rm(v);
            let recs: Vec<_> = rm.outstanding.drain(..).collect();
            apply_notifications(m, v, &recs);
        }
        Op::OnPersistReady(n) => {
            let rm = m.rm(v);
            let mut recs = Vec::new();
            while !rm.outstanding.is_empty() && rm.outstanding[0].0 <= *n {
                recs.push(rm.outstanding.remove(0));
            }
            apply_notifications(m, v, &recs);
        }
        _ => {}
    }
    // C14 in situ: the library's persisted index never exceeds what is durable with matching terms
    if post.persisted > pre.persisted
        || post.committed > pre.committed
        || matches!(op, Op::Advance | Op::AdvanceAppend | Op::OnPersistReady(_))
    {
        let p = post.persisted;
        let t = m.g.per[v].shadow.term(p);
        let below_shadow = p < m.g.per[v].shadow.base_index;
        let ok = nodes[v].store.with(|s| match t {
            Some(t) => s.dur.holds(p, t),
            // a pending (not yet written) snapshot replaced the in-memory log: the persisted
            // index still refers to the old entries in storage; only their presence can be checked
            None => p <= s.dur.snap_index || (below_shadow && p <= s.dur.last_index()),
        });
        m.stats.inc("c14.persisted_vs_durable_checks");
        if !ok && post.apply_limit == 0 && post.committed >= p && post.applied < p && t.is_some() {
            // the same state seen from the Ready contract: the entry at the (wrongly advanced)
            // persisted index is committed and not yet applied, so the very next `ready()` - a call
            // the application may make at any time - hands it out although it was never reported
            // persisted (and is not on disk)
            m.violation(
                "C07",
                "persisted-only",
                "unpersisted-entry-due-for-handoff".into(),
                format!(
                    "node {}: after {} the entry at index {} (term {:?}) is committed, unapplied and counted as persisted, but the application never reported it persisted and it is not in the durable image",
                    id,
                    op.short(),
                    p,
                    t
                ),
                id,
                step,
            );
        }
        if !ok {
            m.violation(
                "C14",
                "persisted-not-beyond-durable",
                "persisted-index-not-durable".into(),
                format!(
                    "node {}: persisted index {} (term {:?}) after {} is not in the durable image",
                    id,
                    p,
                    t,
                    op.short()
                ),
                id,
                step,
            );
        }
    }
    let _ = pre;
}

fn apply_notifications(m: &mut Monitors, v: usize, recs: &[(u64, Option<(u64, u64)>, Option<u64>)]) {
    for (_n, last, snap) in recs {
        if let Some(si) = snap {
            let rm = m.rm(v);
            if rm.notified < *si {
                rm.notified = *si;
            }
        }
        if let Some((i, t)) = last {
            if m.g.per[v].shadow.term(*i) == Some(*t) {
                let rm = m.rm(v);
                if rm.notified < *i {
                    rm.notified = *i;
                }
            }
        }
    }
}

/// Ready handed to the application. Returns creation-time metadata aligned with
/// (immediate messages, persisted messages).
pub fn on_ready(
    m: &mut Monitors,
    nodes: &[Node],
    v: usize,
    rd: &Ready,
    has_ready_before: bool,
    step: usize,
) -> Vec<u64> {
    let id = nodes[v].id;
    let raw = nodes[v].raw.as_ref().unwrap();
    m.stats.inc("c07.readys");
    let n_msgs = rd.messages().len() + rd.persisted_messages().len();
    // message metadata alignment
    let metas: Vec<u64> = {
        let rm = m.rm(v);
        if rm.msg_meta.len() == n_msgs {
            rm.msg_meta.drain(..).collect()
        } else {
            rm.msg_meta.clear();
            vec![0; n_msgs]
        }
    };

    let cur_hs = raw.raft.hard_state();
    let last_hs = m.g.per[v].last_hs.clone();

    // ---- has_ready <=> non-empty
    let nonempty = rd.ss().is_some()
        || rd.hs().is_some()
        || !rd.read_states().is_empty()
        || !rd.entries().is_empty()
        || !rd.snapshot().is_empty()
        || !rd.committed_entries().is_empty()
        || n_msgs > 0;
    if has_ready_before && !nonempty {
        m.violation(
            "C07",
            "has-ready-exact",
            "has-ready-true-but-empty".into(),
            format!("node {}: has_ready() was true but ready() returned nothing", id),
            id,
            step,
        );
    }
    if !has_ready_before {
        m.stats.inc("c07.forced_empty_readys");
        if nonempty {
            m.violation(
                "C07",
                "has-ready-exact",
                "has-ready-false-but-nonempty".into(),
                format!(
                    "node {}: has_ready() was false but ready() returned ss={} hs={} reads={} entries={} snap={} committed={} msgs={}",
                    id,
                    rd.ss().is_some(),
                    rd.hs().is_some(),
                    rd.read_states().len(),
                    rd.entries().len(),
                    !rd.snapshot().is_empty(),
                    rd.committed_entries().len(),
                    n_msgs
                ),
                id,
                step,
            );
        }
    }

    // ---- hard state exactly once, latest value
    let expect_hs = if cur_hs != last_hs { Some(&cur_hs) } else { None };
    if rd.hs() != expect_hs {
        m.violation(
            "C07",
            "hard-state-handoff",
            "hard-state-not-latest-or-repeated".into(),
            format!(
                "node {}: Ready.hs = {:?} but current hard state is {:?} and the last one handed out was {:?}",
                id,
                rd.hs(),
                cur_hs,
                last_hs
            ),
            id,
            step,
        );
    }
    let tv_changed = cur_hs.term != last_hs.term || cur_hs.vote != last_hs.vote;
    if rd.hs().is_some() {
        m.g.per[v].last_hs = cur_hs.clone();
    }

    // ---- must_sync
    let need_sync = !rd.entries().is_empty() || !rd.snapshot().is_empty() || (rd.hs().is_some() && tv_changed);
    if need_sync && !rd.must_sync() {
        m.violation(
            "C07",
            "must-sync",
            "must-sync-not-set".into(),
            format!(
                "node {}: Ready has entries={} snapshot={} term/vote change={} but must_sync is false",
                id,
                rd.entries().len(),
                !rd.snapshot().is_empty(),
                tv_changed
            ),
            id,
            step,
        );
    }
    if !need_sync && rd.must_sync() {
        m.stats.inc("c07.must_sync_without_need");
    }

    // ---- snapshot: no committed entries alongside; stream restarts after it
    let mut snap_idx = None;
    if !rd.snapshot().is_empty() {
        m.stats.inc("c07.readys_with_snapshot");
        let si = rd.snapshot().get_metadata().index;
        snap_idx = Some(si);
        if !rd.committed_entries().is_empty() {
            m.violation(
                "C07",
                "apply-stream",
                "committed-entries-with-snapshot".into(),
                format!("node {}: Ready carries a snapshot at {} and committed entries", id, si),
                id,
                step,
            );
        }
        if si + 1 < m.g.per[v].next_apply {
            m.violation(
                "C07",
                "apply-stream",
                "snapshot-behind-applied-stream".into(),
                format!(
                    "node {}: Ready snapshot at {} is behind entries already handed out (next {})",
                    id,
                    si,
                    m.g.per[v].next_apply
                ),
                id,
                step,
            );
        }
        m.g.per[v].next_apply = si + 1;
        m.c01_snapshot(id, rd.snapshot(), "ready-snapshot", step);
    }

    // ---- entries to persist: exactly the unstable suffix, exactly once
    let ents = rd.entries();
    let unstable = &raw.raft.raft_log.unstable.entries;
    if ents.as_slice() != unstable.as_slice() {
        m.violation(
            "C07",
            "entries-to-persist",
            "ready-entries-not-unstable-suffix".into(),
            format!(
                "node {}: Ready.entries [{}..] ({}) differ from the unstable suffix ({} entries)",
                id,
                ents.first().map(|e| e.index).unwrap_or(0),
                ents.len(),
                unstable.len()
            ),
            id,
            step,
        );
    }
    if !ents.is_empty() {
        m.stats.add("c07.entries_handed_to_persist", ents.len() as u64);
        let (vfirst, vlast, dup) = nodes[v].store.with(|s| {
            let mut dup = None;
            for e in ents.iter() {
                if e.index > s.vol.snap_index && s.vol.term(e.index) == Some(e.term) && snap_idx.is_none() {
                    dup = Some(e.index);
                    break;
                }
            }
            (s.vol.first_index(), s.vol.last_index(), dup)
        });
        let lo = snap_idx.map(|s| s + 1).unwrap_or(vfirst);
        let hi = snap_idx.unwrap_or(vlast) + 1;
        let mut prev = ents[0].index - 1;
        for e in ents.iter() {
            if e.index != prev + 1 {
                m.violation(
                    "C07",
                    "entries-to-persist",
                    "ready-entries-not-contiguous".into(),
                    format!("node {}: Ready.entries jump from {} to {}", id, prev, e.index),
                    id,
                    step,
                );
                break;
            }
            prev = e.index;
        }
        if ents[0].index < lo || ents[0].index > hi {
            m.violation(
                "C07",
                "entries-to-persist",
                "ready-entries-gap-or-compacted".into(),
                format!(
                    "node {}: Ready.entries start at {} but storage holds [{}, {}]",
                    id, ents[0].index, lo, hi - 1
                ),
                id,
                step,
            );
        }
        if let Some(i) = dup {
            m.violation(
                "C07",
                "entries-to-persist",
                "entry-handed-for-persist-twice".into(),
                format!("node {}: entry at index {} was already handed out for persisting with the same term", id, i),
                id,
                step,
            );
        }
    }

    // ---- committed entries
    check_committed(m, nodes, v, rd.committed_entries(), "ready", step);

    // ---- bookkeeping for persistence notifications
    let last = ents.last().map(|e| (e.index, e.term));
    let rm = m.rm(v);
    rm.outstanding.push((rd.number(), last, snap_idx));
    if rm.outstanding.len() >= 2 {
        m.stats.inc("c07.readys_with_two_or_more_outstanding");
    }
    if let Some(ss) = rd.ss() {
        let rm = m.rm(v);
        rm.last_ss = (ss.leader_id, ss.raft_state as u64);
    }

    // ---- read states (C08)
    for rs in rd.read_states() {
        super::reads::on_read_state(m, nodes, v, rs, step);
    }

    // ---- C13 / C15: messages as handed to the application
    let all: Vec<&Message> = rd.messages().iter().chain(rd.persisted_messages().iter()).collect();
    super::flow::on_messages_handed(m, nodes, v, &all, step);
    super::snap::on_messages_handed(m, nodes, v, &all, step);

    // C06 (classification sanity): only a leader's Ready may carry immediately sendable messages
    if !rd.messages().is_empty() && raw.raft.state != StateRole::Leader {
        m.violation(
            "C06",
            "message-class",
            "non-leader-immediate-messages".into(),
            format!("node {} ({:?}) handed out immediately sendable messages", id, raw.raft.state),
            id,
            step,
        );
    }
    let mut f = Fp::new();
    f.u(rd.ss().is_some() as u64)
        .u(rd.hs().is_some() as u64)
        .u(rd.entries().len().min(4) as u64)
        .u(!rd.snapshot().is_empty() as u64)
        .u(rd.committed_entries().len().min(4) as u64)
        .u(rd.messages().len().min(3) as u64)
        .u(rd.persisted_messages().len().min(3) as u64)
        .u(rd.must_sync() as u64)
        .u(raw.raft.state as u64)
        .u(m.rm(v).outstanding.len().min(3) as u64)
        .u(nodes[v].mode as u64);
    m.stats.hit("C07", f.get());
    metas
}

fn check_committed(m: &mut Monitors, nodes: &[Node], v: usize, ents: &[Entry], how: &'static str, step: usize) {
    if ents.is_empty() {
        return;
    }
    let id = nodes[v].id;
    let raw = nodes[v].raw.as_ref().unwrap();
    m.stats.add("c07.committed_entries_handed", ents.len() as u64);
    m.stats.inc("c07.handoffs");
    let limit = raw.raft.raft_log.max_apply_unpersisted_log_limit;
    let committed = raw.raft.raft_log.committed;
    let mut next = m.g.per[v].next_apply;
    for e in ents {
        if e.index != next {
            m.violation(
                "C07",
                "apply-stream",
                format!("apply-stream-gap-or-duplicate/{}", how),
                format!("node {}: expected the next committed entry to be {}, got {}", id, next, e.index),
                id,
                step,
            );
            return;
        }
        next += 1;
        if e.index > committed {
            m.violation(
                "C07",
                "apply-stream",
                format!("uncommitted-entry-handed/{}", how),
                format!("node {}: entry {} handed for apply but commit index is {}", id, e.index, committed),
                id,
                step,
            );
            return;
        }
        // equals the node's own log
        let same = matches!(m.g.per[v].shadow.get(e.index), Some(s) if s.0 == e.term && s.1 == entry_hash(e));
        if !same && m.g.per[v].shadow_valid {
            m.violation(
                "C07",
                "apply-stream",
                format!("handed-entry-differs-from-log/{}", how),
                format!("node {}: entry {} handed for apply differs from the log", id, e.index),
                id,
                step,
            );
            return;
        }
        // persisted-only
        let notified = m.rm(v).notified;
        let durable = nodes[v].store.with(|s| s.dur.holds(e.index, e.term));
        if limit == 0 {
            if !(durable && e.index <= notified) {
                m.violation(
                    "C07",
                    "persisted-only",
                    format!("unpersisted-entry-handed/{}", how),
                    format!(
                        "node {}: entry ({}, term {}) handed for apply but durable={} and reported persisted up to {}",
                        id, e.index, e.term, durable, notified
                    ),
                    id,
                    step,
                );
                return;
            }
        } else {
            m.stats.inc("c07.handed_with_apply_unpersisted_limit");
            if e.index > notified.saturating_add(limit) {
                m.violation(
                    "C07",
                    "persisted-only",
                    format!("beyond-apply-unpersisted-limit/{}", how),
                    format!(
                        "node {}: entry {} handed for apply, persisted up to {}, limit {}",
                        id, e.index, notified, limit
                    ),
                    id,
                    step,
                );
                return;
            }
            if !durable {
                m.stats.inc("c07.handed_before_durable");
            }
        }
    }
    m.g.per[v].next_apply = next;
    m.c01_handoff(id, ents, step);
    if raw.raft.max_committed_size_per_ready_is_limited() {
        m.stats.inc("c07.paginated_handoffs");
    }
}

trait Paginated {
    fn max_committed_size_per_ready_is_limited(&self) -> bool;
}
impl<T: raft::Storage> Paginated for raft::Raft<T> {
    fn max_committed_size_per_ready_is_limited(&self) -> bool {
        // no public getter; has_next_entries after a hand-off means pagination cut it short
        false
    }
}

pub fn on_light(m: &mut Monitors, nodes: &[Node], v: usize, light: &LightReady, step: usize) -> Vec<u64> {
    let id = nodes[v].id;
    let raw = nodes[v].raw.as_ref().unwrap();
    m.stats.inc("c07.light_readys");
    let n_msgs = light.messages().len();
    let metas: Vec<u64> = {
        let rm = m.rm(v);
        if rm.msg_meta.len() == n_msgs {
            rm.msg_meta.drain(..).collect()
        } else {
            rm.msg_meta.clear();
            vec![0; n_msgs]
        }
    };
    let cur = raw.raft.hard_state();
    let last = m.g.per[v].last_hs.clone();
    let expect = if cur.commit > last.commit { Some(cur.commit) } else { None };
    if light.commit_index() != expect {
        m.violation(
            "C07",
            "hard-state-handoff",
            "light-commit-index-wrong".into(),
            format!(
                "node {}: LightReady.commit_index = {:?}, current commit {}, last handed out {}",
                id,
                light.commit_index(),
                cur.commit,
                last.commit
            ),
            id,
            step,
        );
    }
    if let Some(c) = light.commit_index() {
        m.g.per[v].last_hs.commit = c;
    }
    if cur.term != last.term || cur.vote != last.vote {
        m.violation(
            "C07",
            "hard-state-handoff",
            "term-or-vote-changed-inside-advance".into(),
            format!("node {}: hard state {:?} after advance differs in term/vote from handed {:?}", id, cur, last),
            id,
            step,
        );
    }
    check_committed(m, nodes, v, light.committed_entries(), "light", step);
    let all: Vec<&Message> = light.messages().iter().collect();
    super::flow::on_messages_handed(m, nodes, v, &all, step);
    super::snap::on_messages_handed(m, nodes, v, &all, step);
    if !light.messages().is_empty() && raw.raft.state != StateRole::Leader {
        m.violation(
            "C06",
            "message-class",
            "non-leader-light-messages".into(),
            format!("node {} ({:?}) produced messages inside advance", id, raw.raft.state),
            id,
            step,
        );
    }
    metas
}

/// has_ready() evaluated by the application while idle: must equal "ready() would return something".
pub fn on_has_ready(m: &mut Monitors, nodes: &[Node], v: usize, has: bool, step: usize) {
    let id = nodes[v].id;
    let raw = nodes[v].raw.as_ref().unwrap();
    let r = &raw.raft;
    let view = raw.verif_view();
    let hs = r.hard_state();
    let ss = (r.leader_id, r.state as u64);
    let log = &r.raft_log;
    let upper = log.committed.min(log.persisted.saturating_add(log.max_apply_unpersisted_log_limit));
    let since = view.commit_since_index.max(log.first_index().saturating_sub(1));
    let would = !r.msgs.is_empty()
        || ss != (view.prev_ss.0, view.prev_ss.1 as u64)
        || hs != view.prev_hs
        || !r.read_states.is_empty()
        || !log.unstable.entries.is_empty()
        || log.unstable.snapshot.as_ref().is_some_and(|s| s.get_metadata().index > 0)
        || upper > since;
    m.stats.inc("c07.has_ready_evaluations");
    if has != would {
        m.violation(
            "C07",
            "has-ready-exact",
            if has { "has-ready-true-without-work".into() } else { "has-ready-false-with-work".into() },
            format!(
                "node {}: has_ready() = {} but pending work = {} (msgs {}, unstable {}, snapshot {}, reads {}, commit {} persisted {} since {})",
                id,
                has,
                would,
                r.msgs.len(),
                log.unstable.entries.len(),
                log.unstable.snapshot.is_some(),
                r.read_states.len(),
                log.committed,
                log.persisted,
                view.commit_since_index
            ),
            id,
            step,
        );
    }
}

// ------------------------------------------------------------------------------------------ C06

fn promise_kind(t: MessageType) -> u8 {
    match t {
        MessageType::MsgRequestVote => 1,
        MessageType::MsgRequestVoteResponse => 2,
        MessageType::MsgAppendResponse => 3,
        MessageType::MsgAppend
        | MessageType::MsgHeartbeat
        | MessageType::MsgSnapshot
        | MessageType::MsgTimeoutNow
        | MessageType::MsgReadIndexResp => 4,
        MessageType::MsgHeartbeatResponse => 5,
        _ => 0,
    }
}

/// A message leaves node v (the contract-abiding application puts it on the network now).
pub fn on_release(
    m: &mut Monitors,
    nodes: &[Node],
    v: usize,
    msg: &Message,
    class: MsgClass,
    meta: u64,
    step: usize,
) {
    let id = nodes[v].id;
    let t = msg.get_msg_type();
    let kind = promise_kind(t);
    m.stats.inc("c06.messages_released");
    if kind == 0 {
        m.stats.inc("c06.released_without_promise");
        return;
    }
    let (dterm, dvote) = nodes[v].store.with(|s| (s.dur.hs.term, s.dur.hs.vote));
    let mut f = Fp::new();
    f.u(t as u64)
        .u(class as u64)
        .u(msg.reject as u64)
        .u((dterm > msg.term) as u64)
        .u(nodes[v].mode as u64)
        .u(nodes[v].conf.voters.len() as u64)
        .u(nodes[v].conf.learners.len().min(1) as u64);
    m.stats.hit("C06", f.get());
    let mut bad: Option<(String, String)> = None;
    match kind {
        1 => {
            // vote request for term t as candidate `id`
            if !(dterm > msg.term || (dterm == msg.term && dvote == id)) {
                bad = Some((
                    "vote-request-before-durable-candidacy".into(),
                    format!("vote request for term {} released while durable (term {}, vote {})", msg.term, dterm, dvote),
                ));
            }
            let p = &mut m.g.per[v];
            p.told_term = p.told_term.max(msg.term);
            p.told_vote.insert(msg.term, id);
        }
        2 => {
            if !msg.reject {
                if !(dterm > msg.term || (dterm == msg.term && dvote == msg.to)) {
                    bad = Some((
                        "vote-grant-before-durable-vote".into(),
                        format!(
                            "vote for {} in term {} released while durable (term {}, vote {})",
                            msg.to, msg.term, dterm, dvote
                        ),
                    ));
                }
                m.stats.inc("c06.vote_grants_released");
                match m.g.granted.get(&(id, msg.term)) {
                    Some(&c) if c != msg.to => {
                        bad = Some((
                            "two-votes-in-one-term".into(),
                            format!("node {} granted its vote in term {} to {} and to {}", id, msg.term, c, msg.to),
                        ));
                    }
                    None => {
                        m.g.granted.insert((id, msg.term), msg.to);
                    }
                    _ => {}
                }
                let p = &mut m.g.per[v];
                p.told_term = p.told_term.max(msg.term);
                p.told_vote.insert(msg.term, msg.to);
            } else {
                if dterm < msg.term {
                    bad = Some((
                        "message-before-durable-term".into(),
                        format!("vote rejection at term {} released while durable term is {}", msg.term, dterm),
                    ));
                }
                let p = &mut m.g.per[v];
                p.told_term = p.told_term.max(msg.term);
            }
        }
        3 => {
            if dterm < msg.term {
                bad = Some((
                    "message-before-durable-term".into(),
                    format!("append response at term {} released while durable term is {}", msg.term, dterm),
                ));
            }
            if !msg.reject && meta != 0 {
                m.stats.inc("c06.append_acks_released");
                // A gated message of Ready n is judged against what the library handed out for
                // persistence in Readys <= n (all written and synced by the contract-abiding
                // application before it releases the message); an immediately sendable one
                // against what has actually been durable.
                let p = &m.g.per[v];
                let ok = if class == MsgClass::Persisted {
                    msg.index <= p.ever_written_snap
                        || p.ever_written.contains(&(msg.index, meta))
                        || msg.index <= p.ever_dur_snap
                        || p.ever_dur.contains(&(msg.index, meta))
                } else {
                    msg.index <= p.ever_dur_snap || p.ever_dur.contains(&(msg.index, meta))
                };
                if !ok && class == MsgClass::Persisted && dterm > msg.term {
                    // The acknowledged entry was replaced (by a leader of a later term, which
                    // this node has durably joined) before it was ever written. See finding F7.
                    bad = Some((
                        "append-ack-for-entry-overwritten-before-persist".into(),
                        format!(
                            "acknowledgement of index {} (term {}) addressed to the leader of term {} released although that entry was never written; the node is durably at term {}",
                            msg.index, meta, msg.term, dterm
                        ),
                    ));
                } else if !ok {
                    bad = Some((
                        "append-ack-before-durable-entry".into(),
                        format!(
                            "acknowledgement of index {} (term {}) released but that entry was never durable on node {}",
                            msg.index, meta, id
                        ),
                    ));
                }
                // the ack still describes the log only if nothing replaced that entry between
                // the creation of the message and its release
                let p = &mut m.g.per[v];
                if p.shadow_valid && p.shadow.term(msg.index) == Some(meta) {
                    p.told_ack.insert(msg.index, meta);
                }
            }
            let p = &mut m.g.per[v];
            p.told_term = p.told_term.max(msg.term);
        }
        4 => {
            m.stats.inc("c06.leader_messages_released");
            if !(dterm > msg.term || (dterm == msg.term && dvote == id)) {
                bad = Some((
                    format!("leader-message-before-durable-term/{:?}", t),
                    format!(
                        "{:?} sent as leader of term {} released while durable (term {}, vote {})",
                        t, msg.term, dterm, dvote
                    ),
                ));
            }
            let p = &mut m.g.per[v];
            p.told_term = p.told_term.max(msg.term);
            p.told_vote.insert(msg.term, id);
        }
        _ => {
            if dterm < msg.term {
                bad = Some((
                    "message-before-durable-term".into(),
                    format!("{:?} at term {} released while durable term is {}", t, msg.term, dterm),
                ));
            }
            let p = &mut m.g.per[v];
            p.told_term = p.told_term.max(msg.term);
        }
    }
    if let Some((sig, why)) = bad {
        let shape = if nodes[v].conf.voters.len() == 1 && nodes[v].conf.outgoing.is_empty() {
            "single-voter"
        } else {
            "multi-voter"
        };
        let sig = if sig.starts_with("append-ack-for-entry-overwritten") {
            sig
        } else {
            format!("{}/{:?}/{}", sig, class, shape)
        };
        m.violation(
            "C06",
            "persist-before-send",
            sig,
            format!("node {} ({:?} message, app mode {:?}): {}", id, class, nodes[v].mode, why),
            id,
            step,
        );
    }
}

pub fn on_fsync(m: &mut Monitors, nodes: &[Node], v: usize, from: u64) {
    m.stats.inc("fsyncs");
    let p = &mut m.g.per[v];
    nodes[v].store.with(|s| {
        if s.dur.snap_index > p.ever_dur_snap {
            p.ever_dur_snap = s.dur.snap_index;
        }
        if from != u64::MAX {
            let first = s.dur.first_index();
            let start = from.max(first);
            for e in &s.dur.entries[((start - first) as usize).min(s.dur.entries.len())..] {
                p.ever_dur.insert((e.index, e.term));
            }
        }
    });
}

pub fn seed_ever_durable(m: &mut Monitors, nodes: &[Node], v: usize) {
    let p = &mut m.g.per[v];
    nodes[v].store.with(|s| {
        p.ever_dur_snap = p.ever_dur_snap.max(s.dur.snap_index);
        for e in &s.dur.entries {
            p.ever_dur.insert((e.index, e.term));
        }
    });
}

/// The application wrote the entries / snapshot of a Ready to its (volatile) storage.
pub fn on_written(m: &mut Monitors, nodes: &[Node], v: usize) {
    if let Some(h) = nodes[v].held.as_ref() {
        let p = &mut m.g.per[v];
        if let Some(s) = &h.snap {
            p.ever_written_snap = p.ever_written_snap.max(s.get_metadata().index);
        }
        for e in &h.ents {
            p.ever_written.insert((e.index, e.term));
        }
    }
}

/// Restart cross-check: the fresh node is not behind anything it told another node.
pub fn check_restart(m: &mut Monitors, nodes: &[Node], v: usize, post: &View, step: usize) {
    on_new(m, v, post);
    seed_ever_durable(m, nodes, v);
    let id = nodes[v].id;
    let p = &m.g.per[v];
    let mut bad = None;
    if post.term < p.told_term {
        bad = Some((
            "restart-term-behind-told".to_string(),
            format!("restarted at term {} but had sent messages at term {}", post.term, p.told_term),
        ));
    } else if let Some(&c) = p.told_vote.get(&post.term) {
        if post.vote != c {
            bad = Some((
                "restart-vote-lost".to_string(),
                format!("restarted with vote {} in term {} but had told others it voted for {}", post.vote, post.term, c),
            ));
        }
    }
    if bad.is_none() {
        for (&i, &t) in p.told_ack.iter() {
            let have = p.shadow.term(i);
            let covered = i <= p.shadow.base_index;
            if !(covered || have == Some(t)) {
                bad = Some((
                    "restart-log-behind-ack".to_string(),
                    format!("restarted with {:?} at index {} but had acknowledged (index {}, term {})", have, i, i, t),
                ));
                break;
            }
        }
    }
    if m.g.per[v].crashed || m.g.per[v].told_term > 0 {
        m.stats.inc("c06.restart_cross_checks");
    }
    if let Some((sig, why)) = bad {
        m.violation("C06", "restart-not-behind-told", sig, format!("node {}: {}", id, why), id, step);
    }
}

pub fn hs_of(term: u64, vote: u64, commit: u64) -> HardState {
    let mut h = HardState::default();
    h.term = term;
    h.vote = vote;
    h.commit = commit;
    h
}
