//! C16 (PreVote + CheckQuorum non-disruption) and C17 (leadership transfer).

use std::collections::BTreeSet;

use raft::eraftpb::{Message, MessageType};
use raft::StateRole;

use super::{view_digest, Monitors};
use crate::rng::Fp;
use crate::sim::cluster::Node;
use crate::sim::types::*;

/// A lock-step window (C16 part 2): leader and majority whose terms must not move.
#[derive(Clone, Debug)]
pub struct LockWindow {
    pub leader: u64,
    pub term: u64,
    pub majority: BTreeSet<u64>,
    pub rounds: u64,
}

pub fn after_call(
    m: &mut Monitors,
    nodes: &[Node],
    v: usize,
    pre: &View,
    post: &View,
    op: &Op,
    res: &Res,
    new_msgs: &[Message],
    step: usize,
) {
    let id = nodes[v].id;
    let pre_vote_on = nodes[v].cfg.pre_vote;

    // =============================== C16 part 1 ===============================
    if let Op::Step(x) = op {
        if x.get_msg_type() == MessageType::MsgRequestPreVote {
            m.stats.inc("c16.prevote_requests_stepped");
            if x.term > pre.term + 1 {
                m.stats.inc("c16.prevote_requests_far_future");
            }
            if matches!(pre.state, StateRole::Leader | StateRole::Candidate | StateRole::PreCandidate) {
                m.stats.inc("c16.prevote_requests_on_leader_or_candidate");
            }
            let mut f = Fp::new();
            f.u(1)
                .u(pre.state as u64)
                .u((x.term > pre.term) as u64)
                .u((x.term > pre.term + 1) as u64)
                .u((pre.leader_id != 0) as u64)
                .u((pre.vote != 0) as u64)
                .u(new_msgs.first().map(|r| r.reject as u64).unwrap_or(2))
                .u((pre.election_elapsed < nodes[v].cfg.election_tick) as u64)
                .u(nodes[v].cfg.check_quorum as u64);
            super::cluster_fp(nodes, &mut f);
            m.stats.hit("C16", f.get());
            if post.term != pre.term || post.vote != pre.vote {
                m.violation(
                    "C16",
                    "prevote-changes-nothing",
                    "prevote-request-changed-term-or-vote".into(),
                    format!(
                        "node {}: handling a pre-vote request from {} (term {}) changed (term, vote) from ({}, {}) to ({}, {})",
                        id, x.from, x.term, pre.term, pre.vote, post.term, post.vote
                    ),
                    id,
                    step,
                );
                return;
            }
        }
    }
    // track granted pre-votes delivered to a pre-candidacy: a fresh round of pre-vote
    // requests starts a fresh tally (the library resets its tally on every pre-candidacy);
    // every granted response that the library's term filter lets through is counted.
    if new_msgs.iter().any(|x| x.get_msg_type() == MessageType::MsgRequestPreVote) {
        m.g.per[v].prevote_grants.clear();
    }
    if let Op::Step(x) = op {
        if x.get_msg_type() == MessageType::MsgRequestPreVoteResponse
            && !x.reject
            && pre.state == StateRole::PreCandidate
            && x.term >= pre.term
        {
            m.g.per[v].prevote_grants.insert(x.from);
        }
    }
    if post.term > pre.term {
        m.stats.inc("c16.term_increases");
        let mut cause = "none";
        if let Op::Step(x) = op {
            let t = x.get_msg_type();
            let exempt = t == MessageType::MsgRequestPreVote
                || (t == MessageType::MsgRequestPreVoteResponse && !x.reject);
            if x.term > pre.term && !exempt && post.term == x.term {
                cause = "peer";
            }
        }
        if cause == "none" && post.term == pre.term + 1 && post.vote == id {
            // own candidacy
            let transfer = matches!(op, Op::Step(x) if x.get_msg_type() == MessageType::MsgTimeoutNow);
            if transfer {
                cause = "transfer";
            } else if !pre_vote_on {
                cause = "candidacy-without-prevote";
            } else {
                // pre-vote on: needs a quorum of granted pre-votes actually delivered
                let mut set = m.g.per[v].prevote_grants.clone();
                set.insert(id);
                if pre.conf.is_quorum(&set) {
                    cause = "prevote-quorum";
                    m.stats.inc("c16.candidacies_after_prevote_quorum");
                } else {
                    m.violation(
                        "C16",
                        "no-term-bump-without-prevote-quorum",
                        "term-raised-without-prevote-quorum".into(),
                        format!(
                            "node {} raised its term {} -> {} in {} with granted pre-votes only from {:?} (configuration {:?})",
                            id,
                            pre.term,
                            post.term,
                            op.short(),
                            m.g.per[v].prevote_grants,
                            pre.conf
                        ),
                        id,
                        step,
                    );
                    return;
                }
            }
        }
        let mut f = Fp::new();
        f.u(2).u(cause.len() as u64).u(pre.state as u64).u(post.state as u64).u(op.kind());
        m.stats.hit("C16", f.get());
        if cause == "none" {
            m.violation(
                "C16",
                "term-increase-has-cause",
                "term-raised-without-cause".into(),
                format!(
                    "node {} raised its term {} -> {} in {} without a higher-term message from a peer or an own candidacy",
                    id,
                    pre.term,
                    post.term,
                    op.short()
                ),
                id,
                step,
            );
            return;
        }
        m.g.per[v].prevote_grants.clear();
    }
    if post.state != StateRole::PreCandidate && pre.state == StateRole::PreCandidate {
        m.g.per[v].prevote_grants.clear();
    }

    // =============================== C16 part 2 ===============================
    if let Some(w) = m.lockstep.clone() {
        if w.majority.contains(&id) {
            m.stats.inc("c16.lockstep_calls_on_majority");
            let mut bad = None;
            if post.term != w.term {
                bad = Some(format!("member {} of the lock-step majority changed its term {} -> {}", id, w.term, post.term));
            } else if id == w.leader && post.state != StateRole::Leader {
                bad = Some(format!("leader {} of the lock-step majority stepped down", id));
            }
            if let Some(b) = bad {
                m.violation(
                    "C16",
                    "lockstep-majority-undisturbed",
                    if id == w.leader { "leader-disturbed".into() } else { "majority-member-term-changed".into() },
                    format!("{} in {} (window leader {} term {} majority {:?})", b, op.short(), w.leader, w.term, w.majority),
                    id,
                    step,
                );
                m.lockstep = None;
                return;
            }
        } else {
            m.stats.inc("c16.lockstep_calls_on_minority");
            if post.term > w.term {
                m.stats.inc("c16.lockstep_minority_term_above_leader");
            }
        }
    }

    // a refusal of a (pre-)vote speaks for the refuser's own term: it must not echo the
    // requester's (future) term, or a pre-candidate that lost is "told" of a term nobody is in
    for x in new_msgs {
        let t = x.get_msg_type();
        if (t == MessageType::MsgRequestPreVoteResponse || t == MessageType::MsgRequestVoteResponse) && x.reject {
            m.stats.inc("c16.vote_refusals_emitted");
            if x.term != post.term {
                m.violation(
                    "C16",
                    "no-term-bump-without-prevote-quorum",
                    "vote-refusal-carries-a-term-that-is-not-the-refusers".into(),
                    format!(
                        "node {} (term {}) refused {:?} of {} with a response carrying term {}",
                        id,
                        post.term,
                        t,
                        x.to,
                        x.term
                    ),
                    id,
                    step,
                );
                return;
            }
        }
    }

    // =============================== C17 ===============================
    // (a) MsgTimeoutNow only to a fully caught-up voter that is the transfer target
    for x in new_msgs {
        if x.get_msg_type() == MessageType::MsgTimeoutNow {
            m.stats.inc("c17.timeout_now_checked");
            let u = x.to;
            let acked = m.g.per[v].flow.get(&u).map(|r| r.acked).unwrap_or(0);
            let mut f = Fp::new();
            f.u(3).u(op.kind()).u((post.last_index == post.committed) as u64).u(post.conf.voters.len() as u64);
            super::cluster_fp(nodes, &mut f);
            m.stats.hit("C17", f.get());
            let mut why = None;
            if post.state != StateRole::Leader {
                why = Some(("timeout-now-from-non-leader", format!("sender is {:?}", post.state)));
            } else if post.lead_transferee != Some(u) {
                why = Some((
                    "timeout-now-to-non-target",
                    format!("transfer target is {:?}", post.lead_transferee),
                ));
            } else if !post.conf.is_voter(u) {
                why = Some(("timeout-now-to-non-voter", format!("{} is not a voter of {:?}", u, post.conf)));
            } else if acked != post.last_index {
                why = Some((
                    "timeout-now-before-caught-up",
                    format!("{} has acknowledged up to {} but the leader's log ends at {}", u, acked, post.last_index),
                ));
            }
            if let Some((sig, w)) = why {
                m.violation(
                    "C17",
                    "timeout-now-only-when-caught-up",
                    sig.into(),
                    format!("leader {} sent MsgTimeoutNow to {} in {}: {}", id, u, op.short(), w),
                    id,
                    step,
                );
                return;
            }
        }
    }
    // (b) proposals refused while a transfer is pending
    let is_proposal = match op {
        Op::Propose(_) | Op::ProposeConf(..) => true,
        Op::Step(x) => x.get_msg_type() == MessageType::MsgPropose,
        _ => false,
    };
    if is_proposal && pre.state == StateRole::Leader && pre.lead_transferee.is_some() {
        m.stats.inc("c17.proposals_during_transfer");
        let dropped = matches!(res, Res::Err(e) if e.contains("ProposalDropped"));
        if !dropped || post.last_index != pre.last_index {
            m.violation(
                "C17",
                "no-proposals-during-transfer",
                "proposal-accepted-during-transfer".into(),
                format!(
                    "leader {} accepted a proposal ({:?}, log {} -> {}) while transferring to {:?}",
                    id, res, pre.last_index, post.last_index, pre.lead_transferee
                ),
                id,
                step,
            );
            return;
        }
    }
    // (c) abandoned after one election timeout / when the target leaves the voters / on role change
    if post.lead_transferee != pre.lead_transferee {
        m.g.per[v].transfer_ticks = 0;
        if post.lead_transferee.is_some() {
            m.stats.inc("c17.transfers_started");
        } else if post.state == StateRole::Leader && pre.term == post.term {
            match op {
                Op::Tick => m.stats.inc("c17.aborts_by_timeout"),
                Op::ApplyConfChange(_) => m.stats.inc("c17.aborts_by_removal"),
                _ => m.stats.inc("c17.aborts_other"),
            }
        }
    } else if matches!(op, Op::Tick) && pre.state == StateRole::Leader && pre.lead_transferee.is_some() {
        m.g.per[v].transfer_ticks += 1;
        let et = nodes[v].cfg.election_tick;
        if m.g.per[v].transfer_ticks >= et && post.lead_transferee.is_some() {
            m.violation(
                "C17",
                "transfer-abandoned-after-timeout",
                "transfer-pending-beyond-election-timeout".into(),
                format!(
                    "leader {} still transferring to {:?} after {} ticks (election timeout {})",
                    id,
                    post.lead_transferee,
                    m.g.per[v].transfer_ticks,
                    et
                ),
                id,
                step,
            );
            return;
        }
    }
    if post.lead_transferee.is_some() {
        let t = post.lead_transferee.unwrap();
        if post.state != StateRole::Leader || (pre.term != post.term && pre.lead_transferee == post.lead_transferee) {
            m.violation(
                "C17",
                "transfer-cleared-on-role-change",
                "transferee-survived-role-or-term-change".into(),
                format!("node {} is {:?} at term {} with transfer target {} still set", id, post.state, post.term, t),
                id,
                step,
            );
            return;
        }
        if matches!(op, Op::ApplyConfChange(_)) && !post.conf.is_voter(t) {
            m.violation(
                "C17",
                "transfer-abandoned-when-target-leaves",
                if post.conf.is_voter(id) {
                    "transferee-not-a-voter-after-conf-change".into()
                } else {
                    "transferee-not-a-voter-after-conf-change/leader-removed-by-same-change".into()
                },
                format!("leader {} keeps transferring to {} which is no voter of {:?}", id, t, post.conf),
                id,
                step,
            );
            return;
        }
    }
    // (d) requests naming a learner / unknown node are ignored; naming self at most cancels
    let req_target = match op {
        Op::Transfer(t) => Some(*t),
        // a forwarded request carries the forwarder's term; only same-term ones reach the handler
        Op::Step(x) if x.get_msg_type() == MessageType::MsgTransferLeader && x.term == pre.term => Some(x.from),
        _ => None,
    };
    if let Some(t) = req_target {
        if pre.state == StateRole::Leader {
            m.stats.inc("c17.transfer_requests_on_leader");
            let tracked = pre.conf.members().contains(&t);
            let learner = pre.conf.learners.contains(&t);
            let mut f = Fp::new();
            f.u(4)
                .u(tracked as u64)
                .u(learner as u64)
                .u((t == id) as u64)
                .u(pre.lead_transferee.is_some() as u64)
                .u((pre.lead_transferee == Some(t)) as u64);
            super::cluster_fp(nodes, &mut f);
            m.stats.hit("C17", f.get());
            if !tracked || learner {
                m.stats.inc("c17.transfer_requests_invalid_target");
                if view_digest(pre) != view_digest(post) || !new_msgs.is_empty() {
                    m.violation(
                        "C17",
                        "invalid-target-ignored",
                        if learner { "transfer-to-learner-not-ignored".into() } else { "transfer-to-unknown-not-ignored".into() },
                        format!("leader {}: transfer request naming {} (learner={}, tracked={}) changed state or sent messages", id, t, learner, tracked),
                        id,
                        step,
                    );
                    return;
                }
            } else if t == id {
                m.stats.inc("c17.transfer_requests_to_self");
                let mut a = pre.clone();
                let mut b = post.clone();
                a.lead_transferee = None;
                b.lead_transferee = None;
                if post.lead_transferee.is_some() || view_digest(&a) != view_digest(&b) || !new_msgs.is_empty() {
                    m.violation(
                        "C17",
                        "self-target-only-cancels",
                        "transfer-to-self-did-more-than-cancel".into(),
                        format!("leader {}: transfer request naming itself left target {:?} / changed other state", id, post.lead_transferee),
                        id,
                        step,
                    );
                    return;
                }
            }
        } else if matches!(op, Op::Transfer(_)) {
            m.stats.inc("c17.transfer_requests_on_follower");
        }
    }
}
