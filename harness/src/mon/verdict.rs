//! Verdict plumbing shared by all engines: violations, counters, distinct-case sets.

use std::collections::{BTreeMap, HashSet};
use std::hash::{BuildHasherDefault, Hasher};

#[derive(Default, Clone, Copy)]
pub struct IdHasher(u64);
impl Hasher for IdHasher {
    fn finish(&self) -> u64 {
        self.0
    }
    fn write(&mut self, bytes: &[u8]) {
        for b in bytes {
            self.0 = (self.0 ^ *b as u64).wrapping_mul(0x100000001b3);
        }
    }
    fn write_u64(&mut self, i: u64) {
        let mut z = self.0 ^ i.wrapping_mul(0x9E3779B97F4A7C15);
        z = (z ^ (z >> 32)).wrapping_mul(0xD6E8FEB86659FD93);
        self.0 = z ^ (z >> 32);
    }
    fn write_usize(&mut self, i: usize) {
        self.write_u64(i as u64)
    }
    fn write_u32(&mut self, i: u32) {
        self.write_u64(i as u64)
    }
    fn write_u8(&mut self, i: u8) {
        self.write_u64(i as u64)
    }
}
pub type DetBuild = BuildHasherDefault<IdHasher>;
pub type DetSet<K> = HashSet<K, DetBuild>;
pub type DetMap<K, V> = std::collections::HashMap<K, V, DetBuild>;

#[derive(Clone, Debug)]
pub struct Violation {
    pub prop: &'static str,
    pub monitor: &'static str,
    /// Stable signature (no seeds / step numbers) used to match known findings.
    pub sig: String,
    pub detail: String,
    pub node: u64,
    pub step: usize,
}

/// Per-thread statistics merged at the end of a run.
#[derive(Default, Clone)]
pub struct Stats {
    pub counters: BTreeMap<&'static str, u64>,
    pub distinct: BTreeMap<&'static str, DetSet<u64>>,
}

pub const DISTINCT_CAP: usize = 1_500_000;

impl Stats {
    #[inline]
    pub fn add(&mut self, key: &'static str, n: u64) {
        *self.counters.entry(key).or_insert(0) += n;
    }
    #[inline]
    pub fn inc(&mut self, key: &'static str) {
        self.add(key, 1)
    }
    pub fn get(&self, key: &str) -> u64 {
        self.counters.get(key).cloned().unwrap_or(0)
    }
    #[inline]
    pub fn hit(&mut self, prop: &'static str, fp: u64) {
        let s = self.distinct.entry(prop).or_default();
        if s.len() < DISTINCT_CAP {
            s.insert(fp);
        }
    }
    pub fn merge(&mut self, o: Stats) {
        for (k, v) in o.counters {
            *self.counters.entry(k).or_insert(0) += v;
        }
        for (k, s) in o.distinct {
            let d = self.distinct.entry(k).or_default();
            for x in s {
                if d.len() < DISTINCT_CAP {
                    d.insert(x);
                }
            }
        }
    }
    pub fn distinct_of(&self, prop: &str) -> usize {
        self.distinct.get(prop).map(|s| s.len()).unwrap_or(0)
    }
}

pub const ALL_PROPS: [&str; 20] = [
    "C01", "C02", "C03", "C04", "C05", "C06", "C07", "C08", "C09", "C10", "C11", "C12", "C13",
    "C14", "C15", "C16", "C17", "C18", "C19", "C20",
];
