//! C13: flow control and well-formed replication traffic.

use std::collections::BTreeMap;

use protobuf::Message as PbMessage;
use raft::eraftpb::{Message, MessageType};
use raft::{ProgressState, StateRole};

use super::Monitors;
use crate::rng::Fp;
use crate::sim::cluster::Node;
use crate::sim::types::*;

#[derive(Clone, Debug)]
pub struct FlowRec {
    /// Entry-carrying appends emitted to this follower since the last capacity-freeing event.
    pub k: u32,
    /// Largest window capacity in force since that event.
    pub cap_since: usize,
    /// Progress state / fields after the previous call (i.e. before the current one).
    pub last_state: ProgressState,
    pub last_pending_snapshot: u64,
    pub last_matched: u64,
    /// Highest index this follower acknowledged to this leader during this leadership
    /// (from the append responses actually stepped in; independent of Progress.matched).
    pub acked: u64,
    pub snapshots_since_event: u32,
    /// A snapshot was shipped to this follower and neither a status report nor an
    /// acknowledgement covering it has arrived yet.
    pub snap_outstanding: Option<u64>,
    /// In-flight count and pending reduced capacity after the previous call.
    pub last_count: usize,
    pub last_incoming: Option<usize>,
}

impl Default for FlowRec {
    fn default() -> Self {
        FlowRec {
            k: 0,
            cap_since: 0,
            last_state: ProgressState::Probe,
            last_pending_snapshot: 0,
            last_matched: 0,
            acked: 0,
            snapshots_since_event: 0,
            snap_outstanding: None,
            last_count: 0,
            last_incoming: None,
        }
    }
}

impl Monitors {
    pub fn on_cap_adjust(&mut self, v: usize, _target: u64, _cap: usize) {
        self.flow_event_all[v] = true;
    }
    pub fn on_batch_knob(&mut self, v: usize, on: bool) {
        let p = &mut self.g.per[v];
        if on || p.batch_on {
            self.batch_dirty[v] = true;
        }
        p.batch_on = on;
    }
}

pub fn after_call(
    m: &mut Monitors,
    nodes: &[Node],
    v: usize,
    pre: &View,
    post: &View,
    op: &Op,
    res: &Res,
    new_msgs: &[Message],
    step: usize,
) {
    let id = nodes[v].id;
    let raw = nodes[v].raw.as_ref().unwrap();

    // ---------------- (d) uncommitted-bytes accounting (ghost U per leadership)
    let became_leader =
        post.state == StateRole::Leader && (pre.state != StateRole::Leader || pre.term != post.term);
    if became_leader {
        let p = &mut m.g.per[v];
        p.ghost_uncommitted = 0;
        p.ghost_unc_valid = true;
        // become_leader appends exactly one empty entry; tail = index before it
        p.leader_tail = post.last_index - 1;
        p.flow.clear();
        m.flow_event_all[v] = true;
    }
    if post.state != StateRole::Leader {
        m.g.per[v].ghost_unc_valid = false;
        m.g.per[v].flow.clear();
        return;
    }
    let limited = m.max_uncommitted != u64::MAX;
    if limited && m.g.per[v].ghost_unc_valid {
        let u_pre = m.g.per[v].ghost_uncommitted;
        // bytes appended by this call (own or forwarded proposals; conf entries replaced by
        // empty ones count as what was actually appended)
        let mut appended: i64 = 0;
        if post.last_index > pre.last_index && !became_leader {
            for i in pre.last_index + 1..=post.last_index {
                if let Some(e) = m.g.per[v].shadow.get(i) {
                    appended += e.3 as i64;
                }
            }
        }
        let is_proposal = match op {
            Op::Propose(_) | Op::ProposeConf(..) => true,
            Op::Step(x) => x.get_msg_type() == MessageType::MsgPropose,
            _ => false,
        };
        if is_proposal && pre.state == StateRole::Leader && pre.term == post.term {
            let size: i64 = match op {
                Op::Propose(d) => d.len() as i64,
                Op::Step(x) => x.get_entries().iter().map(|e| e.get_data().len() as i64).sum(),
                _ => -1, // conf change: size known only from what was appended
            };
            let max = m.max_uncommitted as i64;
            match res {
                Res::Ok => {
                    m.stats.inc("c13.proposals_accepted");
                    let sz = appended;
                    if !(sz == 0 || u_pre == 0 || u_pre + sz <= max) {
                        m.violation(
                            "C13",
                            "uncommitted-size",
                            "proposal-accepted-over-limit".into(),
                            format!(
                                "leader {} accepted a proposal of {} bytes with {} bytes outstanding (max {})",
                                id, sz, u_pre, max
                            ),
                            id,
                            step,
                        );
                    }
                }
                Res::Err(e) if e.contains("ProposalDropped") => {
                    let member = pre.conf.members().contains(&id);
                    if member && pre.lead_transferee.is_none() && size >= 0 {
                        m.stats.inc("c13.proposals_refused_for_size");
                        let mut f = Fp::new();
                        f.u(7).u((u_pre > 0) as u64).u((size > 0) as u64);
                        m.stats.hit("C13", f.get());
                        if !(size > 0 && u_pre > 0 && u_pre + size > max) {
                            m.violation(
                                "C13",
                                "uncommitted-size",
                                "proposal-refused-within-limit".into(),
                                format!(
                                    "leader {} refused a proposal of {} bytes with {} bytes outstanding (max {})",
                                    id, size, u_pre, max
                                ),
                                id,
                                step,
                            );
                        }
                    }
                }
                _ => {}
            }
        }
        m.g.per[v].ghost_uncommitted = u_pre + appended;
        let lib = raw.raft.uncommitted_size() as i64;
        // ready()/advance() hand out committed entries (which reduces the library's count);
        // the ghost is reduced in the on_ready/on_light hooks that run right after this.
        let hands_out = matches!(op, Op::Ready | Op::Advance | Op::AdvanceAppend);
        if !hands_out && lib != m.g.per[v].ghost_uncommitted {
            m.violation(
                "C13",
                "uncommitted-size",
                "uncommitted-size-accounting-drift".into(),
                format!(
                    "leader {}: library counts {} uncommitted bytes, accepted-minus-handed-out is {} after {}",
                    id,
                    lib,
                    m.g.per[v].ghost_uncommitted,
                    op.short()
                ),
                id,
                step,
            );
        }
    }

    // ---------------- (a) window / probe / snapshot
    let event_from: Option<u64> = match op {
        Op::Step(x) => Some(x.from),
        Op::ReportUnreachable(u) => Some(*u),
        Op::ReportSnapshot(u, _) => Some(*u),
        _ => None,
    };
    let event_all = matches!(op, Op::ApplyConfChange(_)) || m.flow_event_all[v];
    m.flow_event_all[v] = false;

    // ghost acked index from append responses actually stepped in
    if let Op::Step(x) = op {
        if x.get_msg_type() == MessageType::MsgAppendResponse && !x.reject && x.term == post.term {
            let rec = m.g.per[v].flow.entry(x.from).or_default();
            if x.index > rec.acked {
                rec.acked = x.index;
            }
        }
    }

    // per-follower emission counts in this call
    let mut new_app: BTreeMap<u64, u32> = BTreeMap::new();
    let mut new_snap: BTreeMap<u64, u32> = BTreeMap::new();
    for x in new_msgs {
        match x.get_msg_type() {
            MessageType::MsgAppend if !x.entries.is_empty() => *new_app.entry(x.to).or_insert(0) += 1,
            MessageType::MsgSnapshot => *new_snap.entry(x.to).or_insert(0) += 1,
            _ => {}
        }
    }
    // with batching an append can also *become* entry-carrying inside the queue (entries merged
    // into an entry-less commit announcement): count queue growth per destination as well
    let drained = matches!(op, Op::Ready | Op::Advance | Op::AdvanceAppend);
    if !drained && post.msgs_len >= pre.msgs_len {
        for u in 1..16u64 {
            let a = (pre.queued_appends >> (u * 4)) & 0xf;
            let b = (post.queued_appends >> (u * 4)) & 0xf;
            if b > a && b < 15 {
                let e = new_app.entry(u).or_insert(0);
                if ((b - a) as u32) > *e {
                    m.stats.inc("c13.appends_made_entry_carrying_by_batching");
                    *e = (b - a) as u32;
                }
            }
        }
    }
    let prs = raw.raft.prs();
    let mut seen = Vec::new();
    for (&u, pr) in prs.iter() {
        if u == id {
            continue;
        }
        seen.push(u);
        let (_, count, cap, incoming, _) = pr.ins.verif_view();
        let is_new = !m.g.per[v].flow.contains_key(&u);
        let rec = m.g.per[v].flow.entry(u).or_default();
        let (pre_count, pre_incoming) = (rec.last_count, rec.last_incoming);
        rec.last_count = count;
        rec.last_incoming = incoming;
        // An acknowledgement that is not news (a duplicate or a late one: index at or below what
        // the leader already recorded) frees no capacity and does not end a probe pause.
        let stale_ack = matches!(op, Op::Step(x) if x.from == u
            && x.get_msg_type() == MessageType::MsgAppendResponse
            && !x.reject
            && x.index <= rec.last_matched);
        if stale_ack {
            m.stats.inc("c13.stale_acks_stepped");
        }
        let is_event = event_all || (event_from == Some(u) && !stale_ack) || is_new;
        if is_event {
            rec.k = 0;
            rec.cap_since = cap;
            rec.snapshots_since_event = 0;
        }
        if cap > rec.cap_since {
            rec.cap_since = cap;
        }
        let na = new_app.get(&u).cloned().unwrap_or(0);
        let ns = new_snap.get(&u).cloned().unwrap_or(0);
        rec.k += na;
        rec.snapshots_since_event += ns;
        let last_state = rec.last_state;
        let (k, cap_since, snaps) = (rec.k, rec.cap_since, rec.snapshots_since_event);
        rec.last_state = pr.state;
        rec.last_pending_snapshot = pr.pending_snapshot;
        rec.last_matched = pr.matched;
        // what ends "a snapshot is outstanding": its status report, an acknowledgement that
        // covers it, a membership change or a new leadership - not an unreachable report,
        // a heartbeat response or a rejection
        let ends_snapshot = event_all
            || is_new
            || matches!(op, Op::ReportSnapshot(x, _) if *x == u)
            || matches!(op, Op::Step(x) if x.from == u
                && x.get_msg_type() == MessageType::MsgAppendResponse
                && !x.reject
                && rec.snap_outstanding.is_some_and(|si| x.index >= si));
        let outstanding_before = rec.snap_outstanding;
        if ends_snapshot {
            rec.snap_outstanding = None;
        }
        let still_outstanding = rec.snap_outstanding;
        if ns > 0 {
            rec.snap_outstanding = Some(pr.pending_snapshot);
        }
        let mut bad: Option<(&'static str, String)> = None;
        // a window that was shrunk while appends were in flight admits nothing new until it holds
        // fewer than the reduced capacity
        if let Some(c) = pre_incoming {
            m.stats.inc("c13.calls_with_pending_window_shrink");
            if !is_new && !is_event && last_state == ProgressState::Replicate && pr.state == ProgressState::Replicate && pre_count >= c && na > 0 {
                bad = Some((
                    "send-beyond-reduced-window",
                    format!("{} new entry-carrying appends to {} although its window was reduced to {} and still held {} unacknowledged ones", na, u, c, pre_count),
                ));
            }
        }
        // ... and the reduction itself is never dropped: it stays pending or becomes the capacity
        // (only another adjust_max_inflight_msgs call may replace it; a membership change can remove
        // and re-add the follower in one call, which creates a fresh Progress with the default window)
        if let (Some(c), None, false) = (pre_incoming, incoming, is_new) {
            let adjusted = matches!(op, Op::Knob(k) if *k == "adjust_max_inflight");
            if !adjusted && !event_all {
                m.stats.inc("c13.pending_window_shrink_resolved");
                if cap != c && bad.is_none() {
                    bad = Some((
                        "reduced-window-forgotten",
                        format!("window for {} was being reduced to {} but its capacity is {} once the reduction is no longer pending", u, c, cap),
                    ));
                }
            }
        }
        if bad.is_some() {
        } else if let (Some(si), true) = (still_outstanding, na > 0 || ns > 0) {
            let _ = outstanding_before;
            bad = Some((
                "send-while-snapshot-outstanding",
                format!("{} appends and {} snapshots sent to {} while snapshot {} is outstanding (no status report, no acknowledgement covering it)", na, ns, u, si),
            ));
        } else if last_state == ProgressState::Snapshot && !is_event && (na > 0 || ns > 0) {
            bad = Some((
                "send-while-snapshot-outstanding",
                format!("{} appends and {} snapshots sent to {} while a snapshot is outstanding", na, ns, u),
            ));
        } else if snaps > 1 {
            bad = Some((
                "second-snapshot-without-report",
                format!("{} snapshots sent to {} without a status report or message from it in between", snaps, u),
            ));
        } else {
            let bound_state = if pr.state == ProgressState::Snapshot { last_state } else { pr.state };
            match bound_state {
                ProgressState::Replicate => {
                    if k as usize > cap_since {
                        bad = Some((
                            "window-exceeded",
                            format!(
                                "{} entry-carrying appends to {} since it last freed capacity, window {}",
                                k, u, cap_since
                            ),
                        ));
                    }
                    if count >= cap_since.max(cap) && cap > 0 {
                        m.stats.inc("c13.window_full_observed");
                    }
                }
                ProgressState::Probe => {
                    if k > 1 {
                        bad = Some((
                            "probe-more-than-one",
                            format!("{} entry-carrying appends to probing follower {} since it last responded", k, u),
                        ));
                    }
                    if na > 0 {
                        m.stats.inc("c13.probe_sends");
                    }
                }
                ProgressState::Snapshot => {}
            }
        }
        if pr.state == ProgressState::Replicate && count > cap.max(1) && cap > 0 {
            bad = Some((
                "inflight-count-over-cap",
                format!("window for {} holds {} in-flight with capacity {}", u, count, cap),
            ));
        }
        if pr.state == ProgressState::Snapshot {
            m.stats.inc("c13.calls_in_snapshot_state");
        }
        if let Some((sig, why)) = bad {
            if sig == "send-while-snapshot-outstanding" {
                // the same observation refutes C15's "resumes replication after the snapshot index
                // once it is reported done"
                m.violation(
                    "C15",
                    "resume-after-snapshot",
                    "replication-resumed-before-snapshot-reported".into(),
                    format!("leader {} (term {}) in {}: {}", id, post.term, op.short(), why),
                    id,
                    step,
                );
            }
            m.violation(
                "C13",
                "flow-control",
                sig.into(),
                format!("leader {} (term {}) in {}: {}", id, post.term, op.short(), why),
                id,
                step,
            );
            return;
        }
    }
    // forget followers that left the progress set (their acked index starts over if re-added)
    if m.g.per[v].flow.len() != seen.len() {
        m.g.per[v].flow.retain(|u, _| seen.contains(u));
    }
}

/// Messages as handed to the application in a Ready / LightReady.
pub fn on_messages_handed(m: &mut Monitors, nodes: &[Node], v: usize, msgs: &[&Message], step: usize) {
    if msgs.is_empty() {
        return;
    }
    let id = nodes[v].id;
    let raw = nodes[v].raw.as_ref().unwrap();
    let batch_skip = m.g.per[v].batch_on || m.batch_dirty[v];
    m.batch_dirty[v] = m.g.per[v].batch_on;
    let is_leader = raw.raft.state == StateRole::Leader;
    let term = raw.raft.term;
    let committed = raw.raft.raft_log.committed;
    for x in msgs {
        match x.get_msg_type() {
            MessageType::MsgAppend => {
                m.stats.inc("c13.appends_inspected");
                let mut f = Fp::new();
                f.u(1)
                    .u(x.entries.len().min(5) as u64)
                    .u((x.commit == committed) as u64)
                    .u((x.index + x.entries.len() as u64 == raw.raft.raft_log.last_index()) as u64)
                    .u(batch_skip as u64)
                    .u(raw.raft.prs().get(x.to).map(|p| p.state as u64 + 1).unwrap_or(0))
                    .u(raw.raft.prs().get(x.to).map(|p| p.ins.full() as u64).unwrap_or(2))
                    .u((m.max_size_per_msg == u64::MAX) as u64)
                    .u((x.index < raw.raft.raft_log.unstable.offset) as u64);
                super::cluster_fp(nodes, &mut f);
                m.stats.hit("C13", f.get());
                // contiguous from index+1
                let mut prev = x.index;
                for e in x.get_entries() {
                    if e.index != prev + 1 {
                        m.violation(
                            "C13",
                            "append-shape",
                            "append-entries-not-contiguous".into(),
                            format!("leader {}: append to {} anchored at {} has entry {} after {}", id, x.to, x.index, e.index, prev),
                            id,
                            step,
                        );
                        return;
                    }
                    prev = e.index;
                }
                // size
                if !batch_skip && m.max_size_per_msg != u64::MAX && x.entries.len() > 1 {
                    let sz: u64 = x.get_entries().iter().map(|e| u64::from(e.compute_size())).sum();
                    if sz > m.max_size_per_msg {
                        m.violation(
                            "C13",
                            "append-size",
                            "append-over-max-size".into(),
                            format!(
                                "leader {}: append to {} packs {} entries / {} bytes, max_size_per_msg {}",
                                id,
                                x.to,
                                x.entries.len(),
                                sz,
                                m.max_size_per_msg
                            ),
                            id,
                            step,
                        );
                        return;
                    }
                }
                if is_leader && x.term == term {
                    if x.commit > committed {
                        m.violation(
                            "C13",
                            "append-shape",
                            "append-commit-beyond-leader".into(),
                            format!("leader {}: append advertises commit {} > own commit {}", id, x.commit, committed),
                            id,
                            step,
                        );
                        return;
                    }
                    let sh = &m.g.per[v].shadow;
                    if x.index >= sh.base_index {
                        if sh.term(x.index) != Some(x.log_term) {
                            let t = sh.term(x.index);
                            m.violation(
                                "C13",
                                "append-shape",
                                "append-anchor-term-wrong".into(),
                                format!(
                                    "leader {}: append to {} anchored at (index {}, term {}) but own log has term {:?} there",
                                    id, x.to, x.index, x.log_term, t
                                ),
                                id,
                                step,
                            );
                            return;
                        }
                        for e in x.get_entries() {
                            let same = matches!(sh.get(e.index), Some(s) if s.0 == e.term && s.1 == entry_hash(e));
                            if !same {
                                m.violation(
                                    "C13",
                                    "append-shape",
                                    "append-entry-not-from-own-log".into(),
                                    format!("leader {}: append to {} carries an entry at {} that differs from its own log", id, x.to, e.index),
                                    id,
                                    step,
                                );
                                return;
                            }
                        }
                    }
                } else {
                    m.stats.inc("c13.appends_from_past_leadership");
                }
            }
            MessageType::MsgHeartbeat => {
                m.stats.inc("c13.heartbeats_inspected");
                if !x.entries.is_empty() {
                    m.violation(
                        "C13",
                        "heartbeat-shape",
                        "heartbeat-with-entries".into(),
                        format!("leader {}: heartbeat to {} carries entries", id, x.to),
                        id,
                        step,
                    );
                    return;
                }
                if is_leader && x.term == term {
                    let acked = m.g.per[v].flow.get(&x.to).map(|r| r.acked);
                    let mut f = Fp::new();
                    f.u(2).u((x.commit == committed) as u64).u((Some(x.commit) == acked) as u64).u((x.commit == 0) as u64);
                    m.stats.hit("C13", f.get());
                    if x.commit > committed {
                        m.violation(
                            "C13",
                            "heartbeat-shape",
                            "heartbeat-commit-beyond-leader".into(),
                            format!("leader {}: heartbeat advertises commit {} > own commit {}", id, x.commit, committed),
                            id,
                            step,
                        );
                        return;
                    }
                    if let Some(a) = acked {
                        if x.commit > a {
                            m.violation(
                                "C13",
                                "heartbeat-shape",
                                "heartbeat-commit-beyond-acked".into(),
                                format!(
                                    "leader {}: heartbeat to {} advertises commit {} but {} has only acknowledged {}",
                                    id, x.to, x.commit, x.to, a
                                ),
                                id,
                                step,
                            );
                            return;
                        }
                    }
                }
            }
            _ => {}
        }
    }
}

/// Committed entries handed out while leader reduce the outstanding byte count.
pub fn on_committed_handed(m: &mut Monitors, nodes: &[Node], v: usize, ents: &[raft::eraftpb::Entry]) {
    let raw = nodes[v].raw.as_ref().unwrap();
    if raw.raft.state != StateRole::Leader || m.max_uncommitted == u64::MAX {
        return;
    }
    let p = &mut m.g.per[v];
    if !p.ghost_unc_valid {
        return;
    }
    let tail = p.leader_tail;
    let size: i64 = ents
        .iter()
        .skip_while(|e| e.index <= tail)
        .map(|e| e.get_data().len() as i64)
        .sum();
    p.ghost_uncommitted = (p.ghost_uncommitted - size).max(0);
}
