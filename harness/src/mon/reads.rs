//! C08: ReadIndex (Safe mode) is linearizable. Unique contexts make the history unambiguous:
//! every returned ReadState identifies the request it answers, so each check is O(1).

use raft::eraftpb::Message;
use raft::{ReadState, StateRole};

use super::Monitors;
use crate::rng::Fp;
use crate::sim::cluster::Node;
use crate::sim::types::*;

#[derive(Clone, Debug)]
pub struct ReadRec {
    pub node: usize,
    pub inc: u32,
    pub issue_step: usize,
    /// Highest commit index any node had shown when the request was issued.
    pub g_issue: u64,
    pub answers: u32,
    pub issued_on_leader: bool,
    pub stale_leader_at_issue: bool,
    pub issued_soon_after_election: bool,
}

pub fn retire_node(_m: &mut Monitors, _v: usize) {
    // Requests are keyed by (node, incarnation); a ReadState surfacing on a later
    // incarnation is detected by the incarnation mismatch in on_read_state.
}

pub fn on_read_issue(m: &mut Monitors, nodes: &[Node], v: usize, ctx: &[u8], step: usize) {
    let raw = nodes[v].raw.as_ref().unwrap();
    let is_leader = raw.raft.state == StateRole::Leader;
    // is this node a leader that has been superseded (someone leads a higher term)?
    let my_term = raw.raft.term;
    let stale = is_leader
        && nodes.iter().any(|n| {
            n.raw
                .as_ref()
                .is_some_and(|r| r.raft.state == StateRole::Leader && r.raft.term > my_term)
        });
    let soon = is_leader && !raw.raft.commit_to_current_term();
    m.stats.inc("c08.reads_issued");
    if stale {
        m.stats.inc("c08.reads_issued_on_stale_leader");
    }
    if soon {
        m.stats.inc("c08.reads_issued_before_leader_committed_in_term");
    }
    if !is_leader {
        m.stats.inc("c08.reads_issued_on_non_leader");
    }
    let g = m.g.gmax_commit;
    m.g.reads.insert(
        ctx.to_vec(),
        ReadRec {
            node: v,
            inc: nodes[v].inc,
            issue_step: step,
            g_issue: g,
            answers: 0,
            issued_on_leader: is_leader,
            stale_leader_at_issue: stale,
            issued_soon_after_election: soon,
        },
    );
}

pub fn on_read_state(m: &mut Monitors, nodes: &[Node], v: usize, rs: &ReadState, step: usize) {
    let id = nodes[v].id;
    m.stats.inc("c08.read_states_returned");
    if !m.read_safe {
        m.stats.inc("c08.read_states_lease_based_not_judged");
        return;
    }
    let rec = match m.g.reads.get_mut(&rs.request_ctx) {
        Some(r) => r,
        None => {
            m.violation(
                "C08",
                "read-state-answers-a-request",
                "read-state-for-unknown-context".into(),
                format!("node {} returned a read state for a context nobody issued", id),
                id,
                step,
            );
            return;
        }
    };
    rec.answers += 1;
    let rec = rec.clone();
    if rec.answers > 1 {
        m.stats.inc("c08.duplicate_answers");
    }
    let raw = nodes[v].raw.as_ref().unwrap();
    let answered_by_stale = {
        let my_term = raw.raft.term;
        nodes.iter().any(|n| {
            n.raw
                .as_ref()
                .is_some_and(|r| r.raft.state == StateRole::Leader && r.raft.term > my_term)
        })
    };
    if answered_by_stale {
        m.stats.inc("c08.answers_surfacing_below_highest_leader_term");
    }
    if !rec.issued_on_leader {
        m.stats.inc("c08.forwarded_reads_answered");
    }
    let mut f = Fp::new();
    f.u(rec.issued_on_leader as u64)
        .u(rec.stale_leader_at_issue as u64)
        .u(rec.issued_soon_after_election as u64)
        .u((rs.index == rec.g_issue) as u64)
        .u((rs.index > rec.g_issue) as u64)
        .u(raw.raft.state as u64)
        .u(nodes[v].conf.voters.len() as u64)
        .u(nodes[v].conf.is_joint() as u64)
        .u(answered_by_stale as u64)
        .u((rs.index - rec.g_issue.min(rs.index)).min(3));
    super::cluster_fp(nodes, &mut f);
    m.stats.hit("C08", f.get());
    if rec.inc != nodes[v].inc && rec.node == v {
        // same node, later incarnation (a late MsgReadIndexResp): still "the node where the
        // request was issued"; the restarted application no longer knows the context.
        m.stats.inc("c08.answers_after_restart_of_issuer");
    }
    if rec.node != v {
        m.violation(
            "C08",
            "returned-where-issued",
            "read-state-on-wrong-node".into(),
            format!(
                "read issued on node {} (incarnation {}) was answered on node {} (incarnation {})",
                nodes[rec.node].id,
                rec.inc,
                id,
                nodes[v].inc
            ),
            id,
            step,
        );
        return;
    }
    if rs.index < rec.g_issue {
        let requeued = m.read_released_by_requeued.contains(&rs.request_ctx);
        m.violation(
            "C08",
            "read-index-not-stale",
            if requeued {
                // finding F12: released by old acknowledgements of a duplicated, re-queued request
                "stale-read-index/released-by-acks-of-requeued-duplicate-request".into()
            } else if rec.stale_leader_at_issue {
                "stale-read-index/superseded-leader".into()
            } else {
                "stale-read-index".into()
            },
            format!(
                "node {}: read issued at step {} when commit index {} had already been reached somewhere was answered with index {}",
                id, rec.issue_step, rec.g_issue, rs.index
            ),
            id,
            step,
        );
    }
}

pub fn after_call(
    m: &mut Monitors,
    nodes: &[Node],
    v: usize,
    pre: &View,
    post: &View,
    op: &Op,
    _res: &Res,
    new_msgs: &[Message],
    _step: usize,
) {
    use raft::eraftpb::MessageType;
    let x = match op {
        Op::Step(x) => x,
        _ => return,
    };
    match x.get_msg_type() {
        MessageType::MsgReadIndex => {
            // how often has this (forwarded) request reached this node? The network may
            // duplicate it; a second arrival after the first was answered re-queues it.
            if let Some(e) = x.get_entries().first() {
                let k = (v, e.get_data().to_vec());
                *m.read_forward_seen.entry(k).or_insert(0) += 1;
            }
        }
        MessageType::MsgHeartbeatResponse if !x.get_context().is_empty() => {
            // requests released by this acknowledgement: new local read states and new
            // MsgReadIndexResp messages
            let requeued = m.read_forward_seen.get(&(v, x.get_context().to_vec())).cloned().unwrap_or(0) > 1;
            if !requeued {
                return;
            }
            let raw = nodes[v].raw.as_ref().unwrap();
            if post.read_states_len > pre.read_states_len {
                for rs in &raw.raft.read_states[pre.read_states_len..] {
                    m.read_released_by_requeued.insert(rs.request_ctx.clone());
                }
            }
            for r in new_msgs {
                if r.get_msg_type() == MessageType::MsgReadIndexResp {
                    if let Some(e) = r.get_entries().first() {
                        m.read_released_by_requeued.insert(e.get_data().to_vec());
                    }
                }
            }
        }
        _ => {}
    }
}
