//! Reference configuration algebra (sets only), written from the joint-consensus rules:
//! simple / enter-joint / leave-joint changes over (incoming, outgoing, learners,
//! learners_next, auto_leave). Used by the C09 ghost and by the C12 component engine.

use std::collections::BTreeSet;

use raft::eraftpb::{ConfChangeTransition, ConfChangeType, ConfChangeV2};

use crate::sim::types::Conf;

#[derive(Clone, Copy, Debug, PartialEq, Eq)]
pub enum Ch {
    AddVoter(u64),
    AddLearner(u64),
    Remove(u64),
}

pub fn changes_of(cc: &ConfChangeV2) -> Vec<Ch> {
    cc.get_changes()
        .iter()
        .map(|c| match c.get_change_type() {
            ConfChangeType::AddNode => Ch::AddVoter(c.node_id),
            ConfChangeType::AddLearnerNode => Ch::AddLearner(c.node_id),
            ConfChangeType::RemoveNode => Ch::Remove(c.node_id),
        })
        .collect()
}

fn tracked(c: &Conf, id: u64) -> bool {
    c.voters.contains(&id)
        || c.outgoing.contains(&id)
        || c.learners.contains(&id)
        || c.learners_next.contains(&id)
}

fn apply_list(c: &mut Conf, chs: &[Ch]) -> Result<(), String> {
    for ch in chs {
        match *ch {
            Ch::AddVoter(0) | Ch::AddLearner(0) | Ch::Remove(0) => {}
            Ch::AddVoter(id) => {
                c.voters.insert(id);
                c.learners.remove(&id);
                c.learners_next.remove(&id);
            }
            Ch::AddLearner(id) => {
                if !tracked(c, id) {
                    c.learners.insert(id);
                } else if !c.learners.contains(&id) {
                    c.voters.remove(&id);
                    c.learners_next.remove(&id);
                    if c.outgoing.contains(&id) {
                        c.learners_next.insert(id);
                    } else {
                        c.learners.insert(id);
                    }
                }
            }
            Ch::Remove(id) => {
                if tracked(c, id) {
                    c.voters.remove(&id);
                    c.learners.remove(&id);
                    c.learners_next.remove(&id);
                }
            }
        }
    }
    if c.voters.is_empty() {
        return Err("removed all voters".into());
    }
    Ok(())
}

pub fn simple(c: &Conf, chs: &[Ch]) -> Result<Conf, String> {
    if c.is_joint() {
        return Err("simple change in joint config".into());
    }
    let mut n = c.clone();
    apply_list(&mut n, chs)?;
    let diff = n.voters.symmetric_difference(&c.voters).count();
    if diff > 1 {
        return Err("more than one voter changed without entering joint config".into());
    }
    Ok(n)
}

pub fn enter_joint(c: &Conf, auto_leave: bool, chs: &[Ch]) -> Result<Conf, String> {
    if c.is_joint() {
        return Err("already joint".into());
    }
    if c.voters.is_empty() {
        return Err("zero-voter config cannot become joint".into());
    }
    let mut n = c.clone();
    n.outgoing = c.voters.clone();
    apply_list(&mut n, chs)?;
    n.auto_leave = auto_leave;
    Ok(n)
}

pub fn leave_joint(c: &Conf) -> Result<Conf, String> {
    if !c.is_joint() {
        return Err("not joint".into());
    }
    let mut n = c.clone();
    let ln: Vec<u64> = n.learners_next.iter().cloned().collect();
    n.learners.extend(ln);
    n.learners_next.clear();
    n.outgoing.clear();
    n.auto_leave = false;
    Ok(n)
}

/// The transition a ConfChangeV2 asks for.
#[derive(Clone, Copy, Debug, PartialEq, Eq)]
pub enum Kind {
    Leave,
    Enter { auto_leave: bool },
    Simple,
}

pub fn classify(cc: &ConfChangeV2) -> Kind {
    let tr = cc.get_transition();
    let n = cc.get_changes().len();
    if tr == ConfChangeTransition::Auto && n == 0 {
        Kind::Leave
    } else if tr != ConfChangeTransition::Auto || n > 1 {
        Kind::Enter {
            auto_leave: tr != ConfChangeTransition::Explicit,
        }
    } else {
        Kind::Simple
    }
}

pub fn apply_v2(c: &Conf, cc: &ConfChangeV2) -> Result<Conf, String> {
    let chs = changes_of(cc);
    match classify(cc) {
        Kind::Leave => leave_joint(c),
        Kind::Enter { auto_leave } => enter_joint(c, auto_leave, &chs),
        Kind::Simple => simple(c, &chs),
    }
}

/// Structural invariants every configuration must satisfy.
pub fn invariants(c: &Conf) -> Result<(), String> {
    for l in &c.learners {
        if c.voters.contains(l) || c.outgoing.contains(l) {
            return Err(format!("{} is both learner and voter", l));
        }
    }
    for l in &c.learners_next {
        if !c.outgoing.contains(l) {
            return Err(format!("staged learner {} is not an outgoing voter", l));
        }
        if c.learners.contains(l) {
            return Err(format!("{} is both learner and staged learner", l));
        }
    }
    if c.voters.is_empty() {
        return Err("no incoming voter".into());
    }
    if !c.is_joint() && (!c.learners_next.is_empty() || c.auto_leave) {
        return Err("staged learners or auto_leave outside a joint config".into());
    }
    Ok(())
}

/// Deciding quorum test by brute force (majority of each non-empty half).
pub fn has_quorum(c: &Conf, set: &BTreeSet<u64>) -> bool {
    c.is_quorum(set)
}
