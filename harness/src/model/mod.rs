pub mod confalg;
