//! `rvmon check`: one property, one tier. Runs the engines registered for the property,
//! classifies what the monitors saw (held / known finding / violation / inconclusive),
//! writes the evidence file and replay files, and sets the exit status.

use std::collections::BTreeMap;
use std::time::Instant;

use serde_json::{json, Value};

use crate::mon::verdict::{Stats, Violation};
use crate::run::{run_cluster, ClusterRun, RunOutcome};
use crate::sim::gen::{run_exec, Profile};

pub struct PropSpec {
    pub id: &'static str,
    pub profiles: &'static [Profile],
    /// Executions in the quick tier (thorough = 12x, time-capped).
    pub quick_execs: usize,
    /// (counter, minimum in the quick tier). Thorough requires 5x.
    pub floors: &'static [(&'static str, u64)],
    pub rule: &'static str,
    pub counter_prefixes: &'static [&'static str],
}

use Profile::*;

pub const CLUSTER_PROPS: &[PropSpec] = &[
    PropSpec {
        id: "C01",
        profiles: &[Mixed, Crash, Replication, Membership, Snapshot, Election],
        quick_execs: 240_000,
        floors: &[
            ("c01.commit_reports", 600000),
            ("c01.handoff_reports", 300000),
            ("c01.snapshot_reports", 1500),
            ("c02.leaders_elected", 60000),
            ("crashes", 60000),
            ("c01.batched_removals_leader_cut_off", 200),
        ],
        rule: "cluster engine; a case is a commit-index advance / apply hand-off / snapshot report checked against the ghost committed log; distinct by (range length, channel, role, term) fingerprint",
        counter_prefixes: &["app.", "c01.", "crash", "net.", "restarts", "compactions", "entries_applied"],
    },
    PropSpec {
        id: "C02",
        profiles: &[Election, Crash, Membership, Mixed, Transfer],
        quick_execs: 240_000,
        floors: &[
            ("c02.leaders_elected", 120000),
            ("crashes", 60000),
            ("c09.conf_entries_applied", 9000),
            ("c02.stalled_apply_scenarios_grown", 100),
            ("c02.forgotten_vote_reached", 60),
            ("c06.stranger_vote_then_self_elected_before_ready", 15),
        ],
        rule: "cluster engine, election-heavy profiles; a case is a node observed in the leader role checked against leader_of[term]; distinct by abstract state of the new leader (role history, log tail vs. commit, configuration shape)",
        counter_prefixes: &["app.", "c02.", "c06.stranger", "c03.requests", "c06.vote_grants", "crash", "restarts", "c09.conf_entries_applied", "c16.candidacies"],
    },
    PropSpec {
        id: "C03",
        profiles: &[Election, Crash, Snapshot, Mixed, Membership],
        quick_execs: 240_000,
        floors: &[
            ("c03.leader_starts_checked_nonempty", 30000),
            ("c03.grants_checked", 300000),
            ("c03.requests_checked", 600000),
            ("c03.vote_commit_fast_forwards", 300),
            ("c02.stalled_apply_scenarios_grown", 100),
            ("c03.joint_overlap_reached", 30),
        ],
        rule: "cluster engine; cases are (a) leader starts checked against every entry committed by an earlier-term leader, (b) vote / pre-vote grants checked against the voter's own tail, (c) vote requests checked against the sender's tail; distinct by (message kind, relative tail position, role, term relation)",
        counter_prefixes: &["app.", "c03.", "c02.", "crash", "compactions"],
    },
    PropSpec {
        id: "C04",
        profiles: &[Replication, Crash, Mixed, Membership, Singleton],
        quick_execs: 240_000,
        floors: &[
            ("c04.leader_commit_advances", 150000),
            ("c04.leader_commit_advance_joint", 6000),
            ("c04.leader_commit_advance_unpersisted_tail", 9000),
            ("c04.nonleader_advance.append", 90000),
            ("c04.nonleader_advance.heartbeat", 15000),
            ("c04.nonleader_advance.snapshot", 600),
            ("c04.nonleader_advance.vote_fast_forward", 600),
            ("c04.regained_leadership_reached", 60),
            ("app.stale_persist_notices", 200000),
        ],
        rule: "cluster engine with synchronous and asynchronous persistence; a case is a commit-index advance judged against the durable images of all nodes (leaders) or against what leaders committed (non-leaders); distinct by (holder count, configuration, operation, distance of commit from log end / persisted index)",
        counter_prefixes: &["app.", "c04.", "fsyncs", "crash", "c07.readys_with_two"],
    },
    PropSpec {
        id: "C05",
        profiles: &[Replication, Crash, Election, Mixed, Flow],
        quick_execs: 240_000,
        floors: &[("c05.entry_chain_checks", 1500000), ("c05.truncating_appends", 6000), ("c14.full_log_comparisons", 150000)],
        rule: "cluster engine; a case is an entry entering some node's log (unstable included) checked against the canonical (index, term) -> (payload, predecessor term) map, plus leader append-only and committed-prefix checks; distinct by (replaced?, role, position relative to persisted/committed/offset, term relation, operation)",
        counter_prefixes: &["c05.", "c14.", "crash"],
    },
    PropSpec {
        id: "C06",
        profiles: &[Crash, Singleton, Mixed, Election, Replication],
        quick_execs: 240_000,
        floors: &[
            ("c06.messages_released", 3000000),
            ("c06.vote_grants_released", 90000),
            ("c06.append_acks_released", 300000),
            ("c06.restart_cross_checks", 90000),
            ("crash@after_ready", 6000),
            ("crash@after_write", 6000),
            ("crash@after_fsync", 1500),
            ("crash@after_send_persisted", 1500),
            ("c06.stranger_vote_then_self_elected_before_ready", 10),
        ],
        rule: "cluster engine, crash at every pipeline sub-step; a case is a message released by the contract-abiding application judged against the durable image (immediate / light) or what was handed out for persistence (gated), plus restart cross-checks; distinct by (message type, class, reject, durable-term relation, app mode, group shape)",
        counter_prefixes: &["c06.", "crash", "restarts", "fsyncs"],
    },
    PropSpec {
        id: "C07",
        profiles: &[Mixed, Replication, Crash, Snapshot, Flow, Singleton, Singleton],
        quick_execs: 240_000,
        floors: &[
            ("c07.readys", 3000000),
            ("c07.handoffs", 600000),
            ("c07.readys_with_snapshot", 900),
            ("c07.readys_with_two_or_more_outstanding", 150000),
            ("c07.forced_empty_readys", 3000),
            ("c07.has_ready_evaluations", 3000000),
            ("app.stale_persist_notices", 200000),
        ],
        rule: "cluster engine, app modes advance / advance_append+lazy apply / advance_append_async+batched on_persist_ready; a case is a Ready or LightReady checked against the per-node reference model; distinct by (which components are present, sizes, role, outstanding readies, app mode)",
        counter_prefixes: &["app.", "c07.", "crash", "restarts"],
    },
    PropSpec {
        id: "C08",
        profiles: &[Reads],
        quick_execs: 240_000,
        floors: &[
            ("c08.reads_issued", 300000),
            ("c08.read_states_returned", 60000),
            ("c08.forwarded_reads_answered", 9000),
            ("c08.reads_issued_before_leader_committed_in_term", 6000),
            ("c08.stale_leader_scenarios_with_learners", 2000),
        ],
        rule: "cluster engine, reads profile (Safe mode only is judged); a case is a returned ReadState matched to its unique request context and compared with the highest commit index shown anywhere at issue time; distinct by (issued on leader?, stale leader?, fresh leader?, index vs. G_issue, answering role, configuration)",
        counter_prefixes: &["app.", "c08.", "crash"],
    },
    PropSpec {
        id: "C09",
        profiles: &[Membership, Mixed, Snapshot, Transfer],
        quick_execs: 240_000,
        floors: &[
            ("c09.conf_proposals_on_leader", 60000),
            ("c09.conf_proposals_replaced_by_empty", 15000),
            ("c09.conf_entries_applied", 30000),
            ("c09.enter_joint_applied", 3000),
            ("c09.leave_joint_applied", 3000),
            ("c09.elections_started", 150000),
            ("c09.conf_at_applied_checks", 150000),
            ("app.batched_proposals", 400000),
        ],
        rule: "cluster engine, membership profile (V1/V2, joint Auto/Implicit/Explicit, illegal proposals, unknown ids); cases are conf-change proposals on leaders, election starts, applied changes compared across nodes and with the reference algebra; distinct by (pending entries, joint?, leave?, resulting configuration, operation)",
        counter_prefixes: &["app.", "c09.", "crash", "c15.installs"],
    },
    PropSpec {
        id: "C10",
        profiles: &[Mixed, Flow, Snapshot, Crash, Membership, Transfer, Replication],
        quick_execs: 240_000,
        floors: &[
            ("c10.fair_suffixes", 45000),
            ("c10.heal_with_paused_probe", 9000),
            ("c10.heal_with_full_window", 1500),
            ("c10.heal_with_joint_conf", 3000),
            ("c10.heal_with_transfer_pending", 300),
            ("c10.heal_with_pending_snapshot", 90),
            ("c10.heal_with_follower_requesting_snapshot", 300),
            ("c10.missed_change_leadership_moved", 150),
        ],
        rule: "cluster engine; a case is a (fault prefix, fair suffix) pair: faults stop, fair schedule, convergence and a fresh proposal applied everywhere within a bound of election timeouts (logical time); distinct by abstract cluster state at heal time (roles, log gaps, degraded conditions, in-flight messages)",
        counter_prefixes: &["app.", "c10.", "crash", "net."],
    },
    PropSpec {
        id: "C13",
        profiles: &[Flow, Replication, Mixed, Snapshot],
        quick_execs: 240_000,
        floors: &[
            ("c13.appends_inspected", 900000),
            ("c13.heartbeats_inspected", 600000),
            ("c13.window_full_observed", 150000),
            ("c13.probe_sends", 150000),
            ("c13.calls_in_snapshot_state", 9000),
            ("c13.proposals_refused_for_size", 15000),
            ("c13.stale_acks_stepped", 600000),
        ],
        rule: "cluster engine, flow profile (windows 1/2/4 resized at run time, tiny/huge max_size_per_msg, max_uncommitted_size 64/256); cases are emitted appends / heartbeats and proposal admissions; distinct by (message shape, commit relation, batching, refusal reason)",
        counter_prefixes: &["app.", "c13.", "net.duplicated"],
    },
    PropSpec {
        id: "C15",
        profiles: &[Snapshot, Membership, Mixed],
        quick_execs: 240_000,
        floors: &[
            ("c15.snapshots_emitted", 9000),
            ("c15.installs", 4500),
            ("c15.ignored_non_member", 300),
            ("c15.fast_forward_only", 90),
            ("c15.ignored_stale", 900),
            ("c15.installs_joint_conf", 300),
            ("c15.installs_requested", 1500),
            ("compactions", 30000),
        ],
        rule: "cluster engine, snapshot profile (aggressive compaction, lagging/blank/restarting followers, lost/duplicated/stale MsgSnapshot, status reports in any order); cases are snapshot install decisions, emitted snapshots and status reports; distinct by (restored?, member?, matching?, requested?, stale?, joint?, role)",
        counter_prefixes: &["c15.", "compactions", "storage.", "c01.snapshot"],
    },
    PropSpec {
        id: "C16",
        profiles: &[Lockstep, Election, Mixed, Crash, Membership],
        quick_execs: 240_000,
        floors: &[
            ("c16.prevote_requests_stepped", 300000),
            ("c16.prevote_requests_far_future", 9000),
            ("c16.prevote_requests_on_leader_or_candidate", 90000),
            ("c16.term_increases", 300000),
            ("c16.lockstep_windows", 15000),
            ("c16.lockstep_minority_campaigns", 30000),
        ],
        rule: "cluster engine: (1) every pre-vote request stepped anywhere and every term increase classified by cause; (2) lock-step windows (pre_vote+check_quorum, majority in lock-step, adversarial minority); distinct by (receiver role, term relation, leader known, vote held, response) and window shapes",
        counter_prefixes: &["c16."],
    },
    PropSpec {
        id: "C17",
        profiles: &[Transfer, Membership, Mixed],
        quick_execs: 240_000,
        floors: &[
            ("c17.transfer_requests_on_leader", 60000),
            ("c17.timeout_now_checked", 9000),
            ("c17.proposals_during_transfer", 15000),
            ("c17.aborts_by_timeout", 1500),
            ("c17.transfer_requests_invalid_target", 9000),
            ("c17.completion_attempts", 9000),
        ],
        rule: "cluster engine, transfer profile; cases are MsgTimeoutNow emissions, proposals during transfer, abort timers, invalid targets, and bounded completion attempts in healthy clusters; distinct by (target kind, pending transfer, operation, log caught up?)",
        counter_prefixes: &["c17."],
    },
    PropSpec {
        id: "C20",
        profiles: &[Mixed, Crash, Membership, Snapshot, Reads, Transfer, Flow, Election, Replication, Singleton],
        quick_execs: 320_000,
        floors: &[("calls", 90000000), ("c20.local_offered", 150000), ("c20.stranger_responses", 9000), ("crashes", 300000)],
        rule: "cluster engine, union of all profiles; every library call runs under catch_unwind; local message types and responses from non-members are offered to step and must be rejected without state change; distinct by (message type, receiver role, kind)",
        counter_prefixes: &["c20.", "calls", "crash", "restarts", "storage.", "net."],
    },
];

pub fn spec_of(id: &str) -> Option<&'static PropSpec> {
    CLUSTER_PROPS.iter().find(|p| p.id == id)
}

#[derive(Clone, Debug)]
pub struct Known {
    pub id: String,
    pub property: String,
    pub signature: String,
    pub what: String,
}

pub fn load_known(path: &str) -> Vec<Known> {
    let txt = match std::fs::read_to_string(path) {
        Ok(t) => t,
        Err(_) => return Vec::new(),
    };
    let v: Value = match serde_json::from_str(&txt) {
        Ok(v) => v,
        Err(_) => return Vec::new(),
    };
    let mut out = Vec::new();
    if let Some(arr) = v.get("known").and_then(|k| k.as_array()) {
        for k in arr {
            out.push(Known {
                id: k.get("id").and_then(|x| x.as_str()).unwrap_or("").to_string(),
                property: k.get("property").and_then(|x| x.as_str()).unwrap_or("").to_string(),
                signature: k.get("signature").and_then(|x| x.as_str()).unwrap_or("").to_string(),
                what: k.get("what").and_then(|x| x.as_str()).unwrap_or("").to_string(),
            });
        }
    }
    out
}

pub struct CheckArgs {
    pub prop: String,
    pub thorough: bool,
    pub seed: u64,
    pub out: String,
    pub known: String,
    pub replays: String,
    pub threads: usize,
    pub scale: f64,
    /// This process is the checked-build (debug assertions + overflow checks) companion of a
    /// release-build check: no floors, no companion of its own, terse output.
    pub child: bool,
}

pub const CHECKED_BIN: &str = "/verif/harness/target/checked/rvmon";
/// Properties whose quick tier also runs a slice under the checked build (the ones about
/// internal checks and the components that carry debug assertions); thorough: all properties.
pub const CHECKED_QUICK_PROPS: &[&str] = &["C13", "C14", "C18", "C20"];

pub fn build_label() -> &'static str {
    if cfg!(debug_assertions) {
        "checked (release + debug-assertions + overflow-checks)"
    } else {
        "release"
    }
}

/// Runs the same check, smaller, in the checked build as a child process. Returns the evidence
/// fragment and the child's exit code (0 held, 1 violation, 3 inconclusive); `None` if not
/// applicable. Violation lines of the child are passed through.
pub fn run_checked_companion(a: &CheckArgs) -> Option<(Value, i32)> {
    if a.child || cfg!(debug_assertions) {
        return None;
    }
    if !a.thorough && !CHECKED_QUICK_PROPS.contains(&a.prop.as_str()) {
        return None;
    }
    if !std::path::Path::new(CHECKED_BIN).exists() {
        println!("NOTE checked build not available ({}); companion run skipped", CHECKED_BIN);
        return Some((json!({"available": false}), 3));
    }
    let t0 = Instant::now();
    let tmp = format!("{}.checked-build.tmp", a.out);
    let scale = if a.thorough { 0.125 * a.scale } else { 0.25 * a.scale };
    let out = std::process::Command::new(CHECKED_BIN)
        .args([
            "check",
            "--prop",
            &a.prop,
            "--tier",
            if a.thorough { "thorough" } else { "quick" },
            "--seed",
            &(a.seed.wrapping_add(7777)).to_string(),
            "--out",
            &tmp,
            "--known",
            &a.known,
            "--replays",
            &a.replays,
            "--threads",
            &a.threads.to_string(),
            "--scale",
            &scale.to_string(),
            "--child",
        ])
        .output();
    let out = match out {
        Ok(o) => o,
        Err(e) => {
            println!("NOTE checked build companion could not start: {}", e);
            return Some((json!({"available": true, "started": false}), 3));
        }
    };
    let rc = out.status.code().unwrap_or(3);
    let stdout = String::from_utf8_lossy(&out.stdout).to_string();
    let mut pass_next = false;
    for l in stdout.lines() {
        if l.starts_with("VIOLATION ") || l.starts_with("HARNESS-ERROR") || l.starts_with("INCONCLUSIVE") {
            println!("{}", l);
            pass_next = l.starts_with("VIOLATION ");
        } else if pass_next {
            println!("{} [checked build]", l);
            pass_next = false;
        }
    }
    let child_ev: Value = std::fs::read_to_string(&tmp).ok().and_then(|t| serde_json::from_str(&t).ok()).unwrap_or(json!({}));
    let _ = std::fs::remove_file(&tmp);
    let frag = json!({
        "available": true,
        "build": "release profile with debug-assertions = true and overflow-checks = true (cargo --profile checked)",
        "exit_code": rc,
        "seed": a.seed.wrapping_add(7777),
        "scale": scale,
        "executions": child_ev["coverage"]["executions"],
        "evaluations": child_ev["coverage"]["evaluations"],
        "distinct_nontrivial": child_ev["coverage"]["distinct_nontrivial"],
        "violations": child_ev["violations"],
        "known_findings_observed": child_ev["coverage"]["known_findings_observed"],
        "wall_s": t0.elapsed().as_secs_f64(),
    });
    Some((frag, rc))
}

pub fn counters_json(stats: &Stats, prefixes: &[&str]) -> Value {
    let mut m = serde_json::Map::new();
    for (k, v) in &stats.counters {
        if prefixes.iter().any(|p| k.starts_with(p)) {
            m.insert(k.to_string(), json!(v));
        }
    }
    Value::Object(m)
}

pub fn write_replay(dir: &str, prop: &'static str, seed: u64, profile: Profile, actions: usize, v: &Violation) -> String {
    let _ = std::fs::create_dir_all(dir);
    // re-run with tracing to capture the tail of the history
    let r = crate::sim::gen::run_exec_focus(seed, profile, actions, 300, Some(prop));
    let path = format!("{}/{}-{}-{}.json", dir, prop, profile.name(), seed);
    let j = json!({
        "property": prop,
        "engine": "cluster",
        "profile": profile.name(),
        "exec_seed": seed,
        "actions": actions,
        "signature": v.sig,
        "monitor": v.monitor,
        "detail": v.detail,
        "node": v.node,
        "step": v.step,
        "cluster": r.desc,
        "reproduced_in_traced_rerun": r.violations.iter().any(|x| x.sig == v.sig),
        "history_tail": r.trace,
        "build": build_label(),
        "replay_cmd": format!("/verif/check {} --replay {}", prop, path),
    });
    let _ = std::fs::write(&path, serde_json::to_string_pretty(&j).unwrap());
    path
}

pub fn run_cluster_check(a: &CheckArgs, spec: &PropSpec) -> i32 {
    let t0 = Instant::now();
    let known = load_known(&a.known);
    let mult = if a.thorough { 12.0 } else { 1.0 } * a.scale;
    let execs = ((spec.quick_execs as f64) * mult) as usize;
    let max_secs = if a.thorough { 900.0 } else { 150.0 };
    let actions = 600;
    let mut total: Option<RunOutcome> = None;
    let mut round = 0u64;
    let mut floors_met;
    let floor_mult = if a.thorough { 5 } else { 1 };
    loop {
        let cfg = ClusterRun {
            profiles: spec.profiles.to_vec(),
            seed: a
                .seed
                .wrapping_mul(0x9E37_79B9)
                .wrapping_add(u64::from_str_radix(&spec.id[1..], 10).unwrap_or(0) * 7919)
                .wrapping_add(round * 104_729),
            execs,
            actions,
            threads: a.threads,
            max_secs,
            stop_on_violation: false,
            focus: Some(spec.id),
            stop_after: 200,
            known_sigs: known.iter().map(|k| k.signature.clone()).collect(),
        };
        let o = run_cluster(&cfg);
        total = Some(match total {
            None => o,
            Some(mut t) => {
                t.stats.merge(o.stats);
                t.failures.extend(o.failures);
                t.harness_errors.extend(o.harness_errors);
                t.execs_done += o.execs_done;
                t.calls += o.calls;
                t.wall += o.wall;
                t.timed_out |= o.timed_out;
                t
            }
        });
        let t = total.as_ref().unwrap();
        floors_met = a.child
            || spec
                .floors
                .iter()
                .all(|(k, min)| t.stats.get(k) >= *min * floor_mult);
        round += 1;
        if floors_met || round >= 3 || !t.failures.is_empty() && round >= 1 && floors_met {
            break;
        }
    }
    let t = total.unwrap();
    // ---- classify
    let mut known_hits: BTreeMap<String, u64> = BTreeMap::new();
    let mut new_viol: Vec<(u64, Profile, Violation)> = Vec::new();
    let mut other_notes: BTreeMap<String, u64> = BTreeMap::new();
    for f in &t.failures {
        for v in &f.violations {
            if v.prop == spec.id {
                if let Some(k) = known.iter().find(|k| k.property == v.prop && k.signature == v.sig) {
                    *known_hits.entry(k.id.clone()).or_insert(0) += 1;
                } else {
                    new_viol.push((f.seed, f.profile, v.clone()));
                }
            } else {
                *other_notes.entry(format!("{} {}", v.prop, v.sig)).or_insert(0) += 1;
            }
        }
    }
    for k in known.iter().filter(|k| k.property == spec.id && !a.child) {
        let n = known_hits.get(&k.id).cloned().unwrap_or(0);
        println!(
            "KNOWN-FINDING: property={} {} [{}] ({})",
            spec.id,
            k.what,
            k.id,
            if n > 0 {
                format!("observed in {} executions of this run", n)
            } else {
                "not reproduced in this run".to_string()
            }
        );
    }
    for (n, c) in other_notes.iter().filter(|_| !a.child) {
        println!("NOTE other-property {} x{}", n, c);
    }
    // distinct new violations by signature
    let mut seen = BTreeMap::new();
    let mut replay_paths = Vec::new();
    for (seed, prof, v) in &new_viol {
        if seen.contains_key(&v.sig) {
            continue;
        }
        seen.insert(v.sig.clone(), ());
        let path = write_replay(&a.replays, spec.id, *seed, *prof, actions, v);
        println!("VIOLATION property={} replay={}", spec.id, path);
        println!("  {} :: {}", v.sig, v.detail);
        replay_paths.push(path);
        if replay_paths.len() >= 8 {
            break;
        }
    }
    for h in t.harness_errors.iter().take(5) {
        println!("HARNESS-ERROR {}", h);
    }
    // ---- evidence
    let floors: Vec<Value> = spec
        .floors
        .iter()
        .map(|(k, min)| json!({"counter": k, "required": min * floor_mult, "observed": t.stats.get(k)}))
        .collect();
    let samples: Vec<Value> = t
        .samples
        .iter()
        .take(4)
        .map(|(seed, prof, desc, steps, calls)| {
            let r = run_exec(*seed, Profile::parse(prof).unwrap(), actions.min(120), 60);
            json!({"exec_seed": seed, "profile": prof, "cluster": desc, "steps": steps, "library_calls": calls,
                   "history_head": r.trace.iter().take(40).collect::<Vec<_>>()})
        })
        .collect();
    let distinct = t.stats.distinct_of(spec.id);
    let companion = run_checked_companion(a);
    let ev = json!({
        "property_id": spec.id,
        "tier": if a.thorough { "thorough" } else { "quick" },
        "seed": a.seed,
        "level": "exploration",
        "wall_s": t0.elapsed().as_secs_f64(),
        "violations": seen.len(),
        "coverage": {
            "evaluations": t.calls,
            "executions": t.execs_done,
            "distinct_nontrivial": distinct,
            "rule": spec.rule,
            "profiles": spec.profiles.iter().map(|p| p.name()).collect::<Vec<_>>(),
            "actions_per_execution": actions,
            "monitor_antecedents": counters_json(&t.stats, spec.counter_prefixes),
            "floors": floors,
            "floors_met": floors_met,
            "time_capped": t.timed_out,
            "known_findings_observed": known_hits,
            "other_property_notes": other_notes,
            "build": build_label(),
            "checked_build_companion": companion.as_ref().map(|c| c.0.clone()),
            "samples": samples,
        },
        "assumptions": [
            "the simulated application follows the conservative reading of the Ready contract (DESIGN 2.1): fsync and the persistence notification are one atomic step",
            "SimStorage's volatile/durable images model fsync; a crash loses exactly the volatile image",
            "verdict is about the executions of this run only (see coverage.executions)"
        ],
    });
    if let Some(dir) = std::path::Path::new(&a.out).parent() {
        let _ = std::fs::create_dir_all(dir);
    }
    let _ = std::fs::write(&a.out, serde_json::to_string_pretty(&ev).unwrap());
    println!(
        "{} {}: executions {} library calls {} distinct cases {} wall {:.1}s floors_met {}",
        spec.id,
        if a.thorough { "thorough" } else { "quick" },
        t.execs_done,
        t.calls,
        distinct,
        t0.elapsed().as_secs_f64(),
        floors_met
    );
    if !seen.is_empty() || companion.as_ref().is_some_and(|c| c.1 == 1) {
        return 1;
    }
    if !t.harness_errors.is_empty() {
        return 3;
    }
    if !floors_met {
        println!("INCONCLUSIVE property={} monitor antecedents below their floors (see evidence file)", spec.id);
        return 3;
    }
    if let Some((_, rc)) = &companion {
        if *rc != 0 {
            println!("INCONCLUSIVE property={} the checked-build companion run did not complete (exit {})", spec.id, rc);
            return 3;
        }
    }
    0
}


// ------------------------------------------------------------------------------------------
// component engines

pub fn run_comp_engine(engine: &str, p: &crate::comp::CompParams) -> crate::comp::CompOutcome {
    match engine {
        "quorum" => crate::comp::quorum::run(p),
        "confchange" => crate::comp::confchange::run(p),
        "raftlog" => crate::comp::raftlog::run(p),
        "inflights" => crate::comp::inflights::run(p),
        "memstorage" => crate::comp::memstorage::run(p),
        _ => {
            let mut o = crate::comp::CompOutcome::default();
            o.violation("C20", "harness", "unknown-engine", format!("unknown engine {}", engine));
            o
        }
    }
}

pub struct CompSpec {
    pub id: &'static str,
    pub engine: &'static str,
    pub rule: &'static str,
    /// Miri in the quick tier: 0 = none, 1 = focused smoke (budget 0), n>1 = n shards
    pub quick_miri: u32,
    pub thorough_miri_shards: u32,
}

pub const COMP_PROPS: &[CompSpec] = &[
    CompSpec {
        id: "C11",
        engine: "quorum",
        rule: "component engine quorum: MajorityConfig / JointConfig / ProgressTracker commit index, vote tallies, has_quorum and group commit against brute-force oracles; exhaustive over all pairs of voter halves within ids 1..5 with acked indexes in {missing,0..3}, random for 0-9 ids per half with arbitrary u64 indexes, partial vote maps and group assignments; distinct by (sizes, overlap, tie pattern, result class, vote class, groups)",
        quick_miri: 1,
        thorough_miri_shards: 16,
    },
    CompSpec {
        id: "C12",
        engine: "confchange",
        rule: "component engine confchange: breadth-first walk over configurations reachable through Changer::{simple, enter_joint, leave_joint} + apply_conf with change lists over ids 0..6, compared with a set-algebra reference, structural invariants, restore round trip, Raft::new, and quorum overlap over all subset pairs; distinct by (configuration, operation, change list, accepted?)",
        quick_miri: 0,
        thorough_miri_shards: 8,
    },
    CompSpec {
        id: "C14",
        engine: "raftlog",
        rule: "component engine raftlog: random operation sequences over RaftLog<SimStorage> (append, maybe_append at every position class, commit, ready cycle, persistence notices incl. stale ones, snapshot restore, apply, storage compaction), every observer compared with a plain sequence model after every operation; distinct by per-sequence operation/position-class fingerprint",
        quick_miri: 0,
        thorough_miri_shards: 8,
    },
    CompSpec {
        id: "C18",
        engine: "inflights",
        rule: "component engine inflights: every operation sequence up to a fixed length over {add, free_to (5 position classes), free_first_one, reset, set_cap, maybe_free_buffer} from capacities 0..=4, plus long random sequences, against a VecDeque model; distinct by per-sequence (operation, fullness, wrap-around, pending capacity) fingerprint",
        quick_miri: 0,
        thorough_miri_shards: 8,
    },
    CompSpec {
        id: "C19",
        engine: "memstorage",
        rule: "component engine memstorage: mutation sequences permitted by the documented preconditions (append incl. overwriting, compact, apply_snapshot, set_hardstate, commit_to, set_conf_state, snapshot-unavailable) followed by every query, against a snapshot-point + entries model; distinct by per-sequence operation/outcome fingerprint",
        quick_miri: 0,
        thorough_miri_shards: 8,
    },
];

pub fn comp_spec_of(id: &str) -> Option<&'static CompSpec> {
    COMP_PROPS.iter().find(|p| p.id == id)
}

struct ToolRun {
    ok: bool,
    inconclusive: Option<String>,
    cases: u64,
    ops: u64,
    violations: Vec<String>,
    ub: Option<String>,
    wall: f64,
}

fn run_tool_shard(tool: &str, engine: &str, seed: u64, shard: u32, shards: u32, budget: u64) -> ToolRun {
    let t0 = Instant::now();
    let mut cmd = std::process::Command::new("cargo");
    cmd.current_dir("/verif/harness").env("CARGO_NET_OFFLINE", "true");
    let seed_s = seed.to_string();
    let shard_s = shard.to_string();
    let shards_s = shards.to_string();
    let budget_s = budget.to_string();
    match tool {
        "miri" => {
            cmd.env("MIRIFLAGS", "-Zmiri-disable-isolation");
            cmd.args(["+nightly", "miri", "run", "--target-dir", "/verif/harness/target/miri", "--", "comp", "--engine", engine, "--miri", "--seed", &seed_s, "--shard", &shard_s, "--shards", &shards_s, "--budget", &budget_s]);
        }
        _ => {
            // AddressSanitizer build (nightly, explicit target as required by -Zsanitizer)
            cmd.env("RUSTFLAGS", "--cfg tikv_raft_rs_verif -Zsanitizer=address -Cforce-frame-pointers=yes");
            cmd.env("ASAN_OPTIONS", "halt_on_error=1:abort_on_error=0:detect_leaks=0");
            cmd.args(["+nightly", "run", "--release", "--target", "x86_64-unknown-linux-gnu", "--target-dir", "/verif/harness/target/asan", "--", "comp", "--engine", engine, "--seed", &seed_s, "--shard", &shard_s, "--shards", &shards_s, "--budget", &budget_s]);
        }
    }
    let out = match cmd.output() {
        Ok(o) => o,
        Err(e) => {
            return ToolRun { ok: false, inconclusive: Some(format!("cannot start {}: {}", tool, e)), cases: 0, ops: 0, violations: vec![], ub: None, wall: 0.0 }
        }
    };
    let stdout = String::from_utf8_lossy(&out.stdout).to_string();
    let stderr = String::from_utf8_lossy(&out.stderr).to_string();
    let mut r = ToolRun { ok: false, inconclusive: None, cases: 0, ops: 0, violations: vec![], ub: None, wall: t0.elapsed().as_secs_f64() };
    for l in stdout.lines() {
        if l.starts_with("COMP engine=") {
            for tok in l.split_whitespace() {
                if let Some(v) = tok.strip_prefix("cases=") {
                    r.cases = v.parse().unwrap_or(0);
                }
                if let Some(v) = tok.strip_prefix("ops=") {
                    r.ops = v.parse().unwrap_or(0);
                }
            }
            r.ok = true;
        }
        if let Some(v) = l.strip_prefix("COMP-VIOLATION ") {
            r.violations.push(v.to_string());
        }
    }
    let ub_marker = if tool == "miri" { "Undefined Behavior" } else { "AddressSanitizer" };
    if stderr.contains(ub_marker) {
        let line = stderr.lines().find(|l| l.contains(ub_marker)).unwrap_or("").to_string();
        let place = stderr.lines().find(|l| l.contains("/repo/src/")).unwrap_or("").trim().to_string();
        r.ub = Some(format!("{} {}", line.trim(), place));
        r.ok = true;
    } else if !r.ok {
        let tail: Vec<&str> = stderr.lines().rev().take(6).collect();
        r.inconclusive = Some(format!("{} run produced no result (exit {:?}): {}", tool, out.status.code(), tail.into_iter().rev().collect::<Vec<_>>().join(" | ")));
    }
    r
}

pub fn run_comp_check(a: &CheckArgs, spec: &CompSpec) -> i32 {
    let t0 = Instant::now();
    crate::sim::cluster::install_panic_hook();
    let known = load_known(&a.known);
    let budget: u64 = if a.thorough && !a.child { 8 } else { 1 };
    // ---- native shards on threads
    let shards = a.threads.max(1) as u64;
    let mut handles = Vec::new();
    for sh in 0..shards {
        let engine = spec.engine.to_string();
        let seed = a.seed;
        handles.push(std::thread::Builder::new().stack_size(32 << 20).spawn(move || {
            let p = crate::comp::CompParams { seed, budget, shard: sh, shards, miri: false };
            std::panic::catch_unwind(|| run_comp_engine(&engine, &p)).map_err(|_| {
                crate::sim::cluster::LAST_PANIC.with(|p| p.borrow_mut().take()).unwrap_or_default()
            })
        }).unwrap());
    }
    let mut total = crate::comp::CompOutcome::default();
    let mut harness_errors = Vec::new();
    for h in handles {
        match h.join() {
            Ok(Ok(o)) => total.merge(o),
            Ok(Err((msg, loc))) => harness_errors.push(format!("engine panicked at {}: {}", loc, msg)),
            Err(_) => harness_errors.push("engine thread died".to_string()),
        }
    }
    // ---- sanitizer tiers
    let mut tools: Vec<Value> = Vec::new();
    let mut tool_violations: Vec<(String, String)> = Vec::new();
    let mut inconclusive: Vec<String> = Vec::new();
    let miri_plan: Vec<(u32, u32, u64)> = if a.thorough {
        (0..spec.thorough_miri_shards).map(|i| (i, spec.thorough_miri_shards, 1)).collect()
    } else if spec.quick_miri == 1 {
        vec![(0, 1, 0)]
    } else {
        (0..spec.quick_miri).map(|i| (i, spec.quick_miri, 1)).collect()
    };
    let mut plans: Vec<(&str, u32, u32, u64)> = miri_plan.iter().map(|(i, n, b)| ("miri", *i, *n, *b)).collect();
    if a.thorough && spec.id == "C11" {
        for i in 0..4 {
            plans.push(("asan", i, 4, 2));
        }
    }
    if a.child {
        plans.clear();
    }
    if !plans.is_empty() {
        // build once (first shard alone), then the rest in parallel
        let mut results: Vec<(String, ToolRun)> = Vec::new();
        let mut pending: Vec<(&str, u32, u32, u64)> = Vec::new();
        let mut built: std::collections::BTreeSet<&str> = Default::default();
        for pl in plans {
            if built.insert(pl.0) {
                let r = run_tool_shard(pl.0, spec.engine, a.seed, pl.1, pl.2, pl.3);
                results.push((pl.0.to_string(), r));
            } else {
                pending.push(pl);
            }
        }
        let engine = spec.engine;
        let seed = a.seed;
        let hs: Vec<_> = pending
            .into_iter()
            .map(|pl| {
                let tool = pl.0.to_string();
                std::thread::spawn(move || {
                    let r = run_tool_shard(&tool, engine, seed, pl.1, pl.2, pl.3);
                    (tool, r)
                })
            })
            .collect();
        for h in hs {
            if let Ok(x) = h.join() {
                results.push(x);
            }
        }
        let mut agg: BTreeMap<String, (u64, u64, u64, f64)> = BTreeMap::new();
        for (tool, r) in results {
            let e = agg.entry(tool.clone()).or_insert((0, 0, 0, 0.0));
            e.0 += 1;
            e.1 += r.cases;
            e.2 += r.ops;
            e.3 = e.3.max(r.wall);
            if let Some(u) = r.ub {
                tool_violations.push((format!("{}:{}-report:undefined-behaviour", spec.id, tool), u));
            }
            for v in r.violations {
                let sig = v.split(" :: ").next().unwrap_or("").to_string();
                tool_violations.push((sig, v));
            }
            if let Some(i) = r.inconclusive {
                inconclusive.push(i);
            }
        }
        for (tool, (n, cases, ops, wall)) in agg {
            tools.push(json!({"tool": tool, "processes": n, "cases": cases, "operations": ops, "slowest_process_s": wall}));
        }
    }
    // ---- classify
    let mut seen: BTreeMap<String, String> = BTreeMap::new();
    let mut known_hits: BTreeMap<String, u64> = BTreeMap::new();
    for v in &total.violations {
        if v.prop != spec.id {
            println!("NOTE other-property {} {}", v.prop, v.sig);
            continue;
        }
        if let Some(k) = known.iter().find(|k| k.property == spec.id && k.signature == v.sig) {
            *known_hits.entry(k.id.clone()).or_insert(0) += 1;
        } else {
            seen.entry(v.sig.clone()).or_insert(v.detail.clone());
        }
    }
    for (sig, det) in &tool_violations {
        seen.entry(sig.clone()).or_insert(det.clone());
    }
    for k in known.iter().filter(|k| k.property == spec.id && !a.child) {
        println!("KNOWN-FINDING: property={} {} [{}]", spec.id, k.what, k.id);
    }
    let _ = std::fs::create_dir_all(&a.replays);
    for (i, (sig, det)) in seen.iter().enumerate() {
        let path = format!("{}/{}-{}-{}-{}.json", a.replays, spec.id, spec.engine, a.seed, i);
        let j = json!({"property": spec.id, "engine": spec.engine, "seed": a.seed, "tier": if a.thorough {"thorough"} else {"quick"},
            "signature": sig, "detail": det, "build": build_label(),
            "replay_cmd": format!("cd /verif/harness && ./target/release/rvmon comp --engine {} --seed {} --budget {} (the failing case is printed in 'detail')", spec.engine, a.seed, budget)});
        let _ = std::fs::write(&path, serde_json::to_string_pretty(&j).unwrap());
        println!("VIOLATION property={} replay={}", spec.id, path);
        println!("  {} :: {}", sig, det.chars().take(600).collect::<String>());
    }
    for h in &harness_errors {
        println!("HARNESS-ERROR {}", h);
    }
    for i in &inconclusive {
        println!("INCONCLUSIVE {}", i);
    }
    let distinct = total.stats.distinct_of(spec.id);
    let mut counters = serde_json::Map::new();
    for (k, v) in &total.stats.counters {
        counters.insert(k.to_string(), json!(v));
    }
    let companion = run_checked_companion(a);
    let ev = json!({
        "property_id": spec.id,
        "tier": if a.thorough { "thorough" } else { "quick" },
        "seed": a.seed,
        "level": "exploration",
        "wall_s": t0.elapsed().as_secs_f64(),
        "violations": seen.len(),
        "coverage": {
            "build": build_label(),
            "checked_build_companion": companion.as_ref().map(|c| c.0.clone()),
            "evaluations": total.cases,
            "operations_and_comparisons": total.ops,
            "distinct_nontrivial": distinct,
            "rule": spec.rule,
            "exhaustive": false,
            "exhaustive_part": total.exhaustive_part,
            "counters": counters,
            "sanitizer_tiers": tools,
            "samples": total.samples,
            "known_findings_observed": known_hits,
        },
        "assumptions": [
            "reference models and SimStorage in /verif/harness are correct",
            "operation sequences respect the documented preconditions of the component (precondition violations are not behaviour)",
            "verdict is about the cases of this run only"
        ],
    });
    if let Some(dir) = std::path::Path::new(&a.out).parent() {
        let _ = std::fs::create_dir_all(dir);
    }
    let _ = std::fs::write(&a.out, serde_json::to_string_pretty(&ev).unwrap());
    println!(
        "{} {}: cases {} operations/comparisons {} distinct {} wall {:.1}s",
        spec.id,
        if a.thorough { "thorough" } else { "quick" },
        total.cases,
        total.ops,
        distinct,
        t0.elapsed().as_secs_f64()
    );
    if !seen.is_empty() || companion.as_ref().is_some_and(|c| c.1 == 1) {
        return 1;
    }
    if !harness_errors.is_empty() || !inconclusive.is_empty() || total.cases == 0 {
        return 3;
    }
    if let Some((_, rc)) = &companion {
        if *rc != 0 {
            println!("INCONCLUSIVE property={} the checked-build companion run did not complete (exit {})", spec.id, rc);
            return 3;
        }
    }
    0
}
