//! Command-line driver: runs engines in parallel, merges statistics, writes replays and evidence.

use std::sync::atomic::{AtomicBool, AtomicUsize, Ordering};
use std::sync::{Arc, Mutex};
use std::time::Instant;

use crate::mon::verdict::{Stats, Violation};
use crate::sim::cluster::install_panic_hook;
use crate::sim::gen::{run_exec, run_exec_focus, ExecResult, Profile};

pub struct ClusterRun {
    pub profiles: Vec<Profile>,
    pub seed: u64,
    pub execs: usize,
    pub actions: usize,
    pub threads: usize,
    pub max_secs: f64,
    pub stop_on_violation: bool,
    /// Stop early once this many executions have violated `focus` (the verdict is settled).
    pub focus: Option<&'static str>,
    pub stop_after: usize,
    /// Signatures of listed known findings (they never count toward the early stop).
    pub known_sigs: Vec<String>,
}

pub struct RunOutcome {
    pub stats: Stats,
    pub failures: Vec<ExecResult>,
    pub harness_errors: Vec<String>,
    pub execs_done: usize,
    pub calls: u64,
    pub wall: f64,
    pub samples: Vec<(u64, &'static str, String, usize, u64)>,
    pub timed_out: bool,
}

pub fn exec_seed(base: u64, idx: usize) -> u64 {
    base.wrapping_mul(1_000_003).wrapping_add(idx as u64).wrapping_mul(0x2545F4914F6CDD1D) >> 1
}

pub fn run_cluster(cfg: &ClusterRun) -> RunOutcome {
    install_panic_hook();
    let next = Arc::new(AtomicUsize::new(0));
    let stop = Arc::new(AtomicBool::new(false));
    let focus_hits = Arc::new(AtomicUsize::new(0));
    let out = Arc::new(Mutex::new((
        Stats::default(),
        Vec::<ExecResult>::new(),
        Vec::<String>::new(),
        0usize,
        0u64,
        Vec::new(),
    )));
    let t0 = Instant::now();
    let mut handles = Vec::new();
    for _ in 0..cfg.threads.max(1) {
        let next = next.clone();
        let stop = stop.clone();
        let out = out.clone();
        let focus_hits = focus_hits.clone();
        let (focus, stop_after) = (cfg.focus, cfg.stop_after);
        let known_sigs = cfg.known_sigs.clone();
        let profiles = cfg.profiles.clone();
        let (seed, execs, actions, max_secs, sov) =
            (cfg.seed, cfg.execs, cfg.actions, cfg.max_secs, cfg.stop_on_violation);
        handles.push(
            std::thread::Builder::new()
                .stack_size(16 << 20)
                .spawn(move || {
                    let mut local = Stats::default();
                    let mut fails = Vec::new();
                    let mut herrs = Vec::new();
                    let mut done = 0usize;
                    let mut calls = 0u64;
                    let mut samples = Vec::new();
                    let mut sig_counts: std::collections::BTreeMap<String, usize> = Default::default();
                    loop {
                        if stop.load(Ordering::Relaxed) {
                            break;
                        }
                        if t0.elapsed().as_secs_f64() > max_secs {
                            break;
                        }
                        let idx = next.fetch_add(1, Ordering::Relaxed);
                        if idx >= execs {
                            break;
                        }
                        let p = profiles[idx % profiles.len()];
                        let s = exec_seed(seed, idx);
                        let r = match std::panic::catch_unwind(|| run_exec_focus(s, p, actions, 0, focus)) {
                            Ok(r) => r,
                            Err(_) => {
                                let (msg, loc) = crate::sim::cluster::LAST_PANIC
                                    .with(|p| p.borrow_mut().take())
                                    .unwrap_or_default();
                                herrs.push(format!("seed {} profile {}: harness panic at {}: {}", s, p.name(), loc, msg));
                                raft::verif_export::verif_timeout::seed(None);
                                continue;
                            }
                        };
                        done += 1;
                        calls += r.calls;
                        if samples.len() < 2 {
                            samples.push((s, p.name(), r.desc.clone(), r.steps, r.calls));
                        }
                        let bad = !r.violations.is_empty();
                        if let Some(h) = &r.harness_error {
                            herrs.push(format!("seed {} profile {}: {}", s, p.name(), h));
                        }
                        let ExecResult { stats, .. } = &r;
                        local.merge(stats.clone());
                        if bad {
                            if let Some(f) = focus {
                                if r.violations.iter().any(|v| v.prop == f && !known_sigs.contains(&v.sig)) {
                                    let n = focus_hits.fetch_add(1, Ordering::Relaxed) + 1;
                                    if stop_after > 0 && n >= stop_after {
                                        stop.store(true, Ordering::Relaxed);
                                    }
                                }
                            }
                            // keep a few executions per distinct signature so that a frequent
                            // finding cannot crowd out a rare one
                            let sig = r
                                .violations
                                .iter()
                                .find(|v| Some(v.prop) == focus)
                                .unwrap_or(&r.violations[0])
                                .sig
                                .clone();
                            let c = sig_counts.entry(sig).or_insert(0usize);
                            *c += 1;
                            if *c <= 3 && fails.len() < 400 {
                                fails.push(r);
                            } else {
                                local.add("failures_not_kept", 1);
                            }
                            if sov {
                                stop.store(true, Ordering::Relaxed);
                            }
                        }
                    }
                    let mut g = out.lock().unwrap();
                    g.0.merge(local);
                    g.1.extend(fails);
                    g.2.extend(herrs);
                    g.3 += done;
                    g.4 += calls;
                    g.5.extend(samples);
                })
                .unwrap(),
        );
    }
    for h in handles {
        let _ = h.join();
    }
    let wall = t0.elapsed().as_secs_f64();
    let g = std::mem::take(&mut *out.lock().unwrap());
    let timed_out = g.3 < cfg.execs && !stop.load(Ordering::Relaxed);
    RunOutcome {
        stats: g.0,
        failures: g.1,
        harness_errors: g.2,
        execs_done: g.3,
        calls: g.4,
        wall,
        samples: g.5,
        timed_out,
    }
}

fn arg<'a>(args: &'a [String], name: &str) -> Option<&'a str> {
    args.iter()
        .position(|a| a == name)
        .and_then(|i| args.get(i + 1))
        .map(|s| s.as_str())
}

fn print_violation(v: &Violation) {
    println!("  [{}] {} :: {}", v.prop, v.sig, v.detail);
}

pub fn main(args: &[String]) -> i32 {
    if args.is_empty() {
        eprintln!("usage: rvmon <cluster|one|check|comp> ...");
        return 2;
    }
    match args[0].as_str() {
        "cluster" => {
            let profiles: Vec<Profile> = arg(args, "--profiles")
                .unwrap_or("mixed")
                .split(',')
                .filter_map(Profile::parse)
                .collect();
            let cfg = ClusterRun {
                profiles,
                seed: arg(args, "--seed").and_then(|s| s.parse().ok()).unwrap_or(1),
                execs: arg(args, "--execs").and_then(|s| s.parse().ok()).unwrap_or(100),
                actions: arg(args, "--actions").and_then(|s| s.parse().ok()).unwrap_or(600),
                threads: arg(args, "--threads").and_then(|s| s.parse().ok()).unwrap_or(16),
                max_secs: arg(args, "--max-secs").and_then(|s| s.parse().ok()).unwrap_or(3600.0),
                stop_on_violation: args.iter().any(|a| a == "--stop"),
                focus: arg(args, "--focus").and_then(|f| crate::mon::verdict::ALL_PROPS.iter().find(|x| **x == f).cloned()),
                stop_after: 0,
                known_sigs: Vec::new(),
            };
            let o = run_cluster(&cfg);
            println!(
                "execs {} calls {} wall {:.1}s ({:.0} calls/s) failures {} harness_errors {}",
                o.execs_done,
                o.calls,
                o.wall,
                o.calls as f64 / o.wall,
                o.failures.len(),
                o.harness_errors.len()
            );
            if args.iter().any(|a| a == "--stats") {
                for (k, v) in &o.stats.counters {
                    println!("  {:<60} {}", k, v);
                }
                for (k, s) in &o.stats.distinct {
                    println!("  distinct[{}] = {}", k, s.len());
                }
            }
            let mut sigs: std::collections::BTreeMap<String, (usize, u64, &'static str)> = Default::default();
            for f in &o.failures {
                for v in &f.violations {
                    let e = sigs.entry(v.sig.clone()).or_insert((0, f.seed, f.profile.name()));
                    e.0 += 1;
                }
            }
            for (s, (n, seed, prof)) in &sigs {
                println!("VIOL {} x{} e.g. seed {} profile {}", s, n, seed, prof);
            }
            for h in o.harness_errors.iter().take(5) {
                println!("HARNESS-ERROR {}", h);
            }
            if !o.harness_errors.is_empty() {
                return 3;
            }
            if o.failures.is_empty() {
                0
            } else {
                1
            }
        }
        "one" => {
            install_panic_hook();
            let seed: u64 = arg(args, "--seed").and_then(|s| s.parse().ok()).unwrap_or(1);
            let p = Profile::parse(arg(args, "--profile").unwrap_or("mixed")).unwrap();
            let actions = arg(args, "--actions").and_then(|s| s.parse().ok()).unwrap_or(600);
            let tail = arg(args, "--tail").and_then(|s| s.parse().ok()).unwrap_or(120);
            let focus = arg(args, "--focus").and_then(|f| crate::mon::verdict::ALL_PROPS.iter().find(|x| **x == f).cloned());
            let r = run_exec_focus(seed, p, actions, tail, focus);
            println!("{}", r.desc);
            for l in &r.trace {
                println!("{}", l);
            }
            for v in &r.violations {
                print_violation(v);
            }
            if let Some(h) = &r.harness_error {
                println!("HARNESS-ERROR {}", h);
            }
            println!("steps {} calls {}", r.steps, r.calls);
            if r.violations.is_empty() {
                0
            } else {
                1
            }
        }
        "debug-progress" => {
            install_panic_hook();
            let seed: u64 = arg(args, "--seed").and_then(|s| s.parse().ok()).unwrap_or(1);
            let p = Profile::parse(arg(args, "--profile").unwrap_or("mixed")).unwrap();
            let actions: usize = arg(args, "--actions").and_then(|s| s.parse().ok()).unwrap_or(600);
            let mut d = crate::sim::gen::Driver::new(seed, p, 0);
            let mut left = actions;
            while left > 0 && !d.sim.aborted {
                let chunk = (80 + d.rng.usize(400)).min(left);
                d.chaos(chunk);
                left -= chunk;
                if d.sim.aborted {
                    break;
                }
                if d.rng.chance(1, 3) {
                    crate::sim::settle::settle(&mut d);
                }
            }
            for n in d.sim.nodes.iter_mut() {
                if let Some(r) = n.raw.as_mut() {
                    println!("node {} state {:?} term {}", n.id, r.raft.state, r.raft.term);
                    let ids: Vec<u64> = r.raft.prs().iter().map(|(id, _)| *id).collect();
                    for id in ids {
                        println!("  progress {}: {:?}", id, r.raft.prs().get(id).unwrap());
                    }
                    if r.raft.state == raft::StateRole::Leader {
                        let before = r.raft.msgs.len();
                        r.raft.send_append(2);
                        println!("  after send_append(2): msgs {} -> {}", before, r.raft.msgs.len());
                    }
                }
            }
            0
        }
        "comp" => {
            install_panic_hook();
            let engine = arg(args, "--engine").unwrap_or("");
            let p = crate::comp::CompParams {
                seed: arg(args, "--seed").and_then(|s| s.parse().ok()).unwrap_or(1),
                budget: arg(args, "--budget").and_then(|s| s.parse().ok()).unwrap_or(1),
                shard: arg(args, "--shard").and_then(|s| s.parse().ok()).unwrap_or(0),
                shards: arg(args, "--shards").and_then(|s| s.parse().ok()).unwrap_or(1),
                miri: args.iter().any(|a| a == "--miri"),
            };
            let o = match std::panic::catch_unwind(|| crate::check::run_comp_engine(engine, &p)) {
                Ok(o) => o,
                Err(_) => {
                    let (msg, loc) = crate::sim::cluster::LAST_PANIC.with(|p| p.borrow_mut().take()).unwrap_or_default();
                    println!("HARNESS-ERROR engine {} panicked at {}: {}", engine, loc, msg);
                    return 3;
                }
            };
            println!(
                "COMP engine={} shard={}/{} cases={} ops={} distinct={} violations={}",
                engine,
                p.shard,
                p.shards,
                o.cases,
                o.ops,
                o.stats.distinct.values().map(|s| s.len()).sum::<usize>(),
                o.violations.len()
            );
            for v in &o.violations {
                println!("COMP-VIOLATION {} :: {}", v.sig, v.detail.replace('\n', " "));
            }
            if o.violations.is_empty() {
                0
            } else {
                1
            }
        }
        "check" => {
            let prop = arg(args, "--prop").unwrap_or("").to_string();
            let a = crate::check::CheckArgs {
                prop: prop.clone(),
                thorough: arg(args, "--tier") == Some("thorough"),
                seed: arg(args, "--seed").and_then(|s| s.parse().ok()).unwrap_or(1),
                out: arg(args, "--out").map(|s| s.to_string()).unwrap_or(format!("/verif/evidence/{}.json", prop)),
                known: arg(args, "--known").unwrap_or("/verif/known_findings.json").to_string(),
                replays: arg(args, "--replays").unwrap_or("/verif/replays").to_string(),
                threads: arg(args, "--threads").and_then(|s| s.parse().ok()).unwrap_or(16),
                scale: arg(args, "--scale").and_then(|s| s.parse().ok()).unwrap_or(1.0),
                child: args.iter().any(|a| a == "--child"),
            };
            if let Some(spec) = crate::check::comp_spec_of(&prop) {
                return crate::check::run_comp_check(&a, spec);
            }
            match crate::check::spec_of(&prop) {
                Some(spec) => crate::check::run_cluster_check(&a, spec),
                None => {
                    eprintln!("no check registered for {}", prop);
                    2
                }
            }
        }
        "replay" => {
            install_panic_hook();
            let path = arg(args, "--file").unwrap_or("");
            let txt = match std::fs::read_to_string(path) {
                Ok(t) => t,
                Err(e) => {
                    eprintln!("cannot read {}: {}", path, e);
                    return 2;
                }
            };
            let v: serde_json::Value = match serde_json::from_str(&txt) {
                Ok(v) => v,
                Err(e) => {
                    eprintln!("bad replay file: {}", e);
                    return 2;
                }
            };
            let seed = v["exec_seed"].as_u64().unwrap_or(0);
            let prof = Profile::parse(v["profile"].as_str().unwrap_or("mixed")).unwrap_or(Profile::Mixed);
            let actions = v["actions"].as_u64().unwrap_or(600) as usize;
            let sig = v["signature"].as_str().unwrap_or("").to_string();
            let prop = v["property"].as_str().unwrap_or("").to_string();
            let focus = crate::mon::verdict::ALL_PROPS.iter().find(|x| **x == prop.as_str()).cloned();
            let r = run_exec_focus(seed, prof, actions, 200, focus);
            println!("{}", r.desc);
            for l in &r.trace {
                println!("{}", l);
            }
            let hit = r.violations.iter().any(|x| x.sig == sig);
            for x in &r.violations {
                print_violation(x);
            }
            if hit {
                println!("VIOLATION property={} replay={}", prop, path);
                1
            } else {
                println!("replay did not reproduce {} on the current tree", sig);
                0
            }
        }
        _ => {
            eprintln!("unknown subcommand");
            2
        }
    }
}
