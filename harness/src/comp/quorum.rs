//! C11: quorum arithmetic. Brute-force oracles for the commit index of simple / joint voter
//! sets, vote tallies and group commit, compared with `MajorityConfig`, `JointConfig` and the
//! public `ProgressTracker` path.

use std::collections::{BTreeMap, BTreeSet};
use std::hash::BuildHasherDefault;

use raft::eraftpb::ConfState;
use raft::verif_export::{restore, AckIndexer, Index, VoteResult};
use raft::{MajorityConfig, ProgressTracker};

use super::{CompOutcome, CompParams};
use crate::rng::{Fp, Rng};

type FxSet = std::collections::HashSet<u64, BuildHasherDefault<fxhash::FxHasher>>;
type FxMap<V> = std::collections::HashMap<u64, V, BuildHasherDefault<fxhash::FxHasher>>;

#[derive(Clone, Debug)]
pub struct Case {
    pub incoming: Vec<u64>,
    pub outgoing: Vec<u64>,
    /// id -> (acked index, group); absent = the voter never acknowledged anything
    pub acks: BTreeMap<u64, (u64, u64)>,
    /// id -> vote; absent = not voted yet
    pub votes: BTreeMap<u64, bool>,
}

fn majority(n: usize) -> usize {
    n / 2 + 1
}

/// Largest x such that at least a majority of `set` acknowledged >= x (missing = 0).
fn oracle_commit(set: &[u64], acks: &BTreeMap<u64, (u64, u64)>) -> u64 {
    if set.is_empty() {
        return u64::MAX;
    }
    let need = majority(set.len());
    let mut cands: Vec<u64> = set.iter().map(|id| acks.get(id).map(|a| a.0).unwrap_or(0)).collect();
    cands.push(0);
    let mut best = 0;
    for &x in &cands {
        let n = set
            .iter()
            .filter(|id| acks.get(id).map(|a| a.0).unwrap_or(0) >= x)
            .count();
        if n >= need && x > best {
            best = x;
        }
    }
    best
}

/// Group commit of one majority set when every voter has a non-zero group and at least two
/// groups exist: the largest x <= plain quorum index acknowledged by voters of >= 2 groups.
fn oracle_group_commit(set: &[u64], acks: &BTreeMap<u64, (u64, u64)>) -> Option<u64> {
    if set.is_empty() {
        return Some(u64::MAX);
    }
    let groups: BTreeSet<u64> = set.iter().map(|id| acks.get(id).map(|a| a.1).unwrap_or(0)).collect();
    if groups.contains(&0) || groups.len() < 2 {
        return None;
    }
    let q = oracle_commit(set, acks);
    let mut cands: Vec<u64> = set.iter().map(|id| acks.get(id).map(|a| a.0).unwrap_or(0)).collect();
    cands.push(0);
    cands.push(q);
    let mut best = 0;
    for &x in &cands {
        if x > q {
            continue;
        }
        let gs: BTreeSet<u64> = set
            .iter()
            .filter(|id| acks.get(id).map(|a| a.0).unwrap_or(0) >= x)
            .map(|id| acks.get(id).map(|a| a.1).unwrap_or(0))
            .collect();
        if gs.len() >= 2 && x > best {
            best = x;
        }
    }
    Some(best)
}

#[derive(Clone, Copy, Debug, PartialEq, Eq)]
enum VR {
    Won,
    Lost,
    Pending,
}

fn oracle_vote(set: &[u64], votes: &BTreeMap<u64, bool>) -> VR {
    if set.is_empty() {
        return VR::Won;
    }
    let need = majority(set.len());
    let yes = set.iter().filter(|id| votes.get(id) == Some(&true)).count();
    let missing = set.iter().filter(|id| !votes.contains_key(id)).count();
    if yes >= need {
        VR::Won
    } else if yes + missing >= need {
        VR::Pending
    } else {
        VR::Lost
    }
}

fn joint_vote(a: VR, b: VR) -> VR {
    match (a, b) {
        (VR::Won, VR::Won) => VR::Won,
        (VR::Lost, _) | (_, VR::Lost) => VR::Lost,
        _ => VR::Pending,
    }
}

fn vr_of(v: VoteResult) -> VR {
    match v {
        VoteResult::Won => VR::Won,
        VoteResult::Lost => VR::Lost,
        VoteResult::Pending => VR::Pending,
    }
}

fn indexer(acks: &BTreeMap<u64, (u64, u64)>) -> AckIndexer {
    let mut m = AckIndexer::default();
    for (id, (i, g)) in acks {
        m.insert(*id, Index { index: *i, group_id: *g });
    }
    m
}

fn fxset(ids: &[u64]) -> FxSet {
    ids.iter().cloned().collect()
}

pub fn check_case(o: &mut CompOutcome, c: &Case, light: bool) {
    super::guarded(o, "C11", &|| format!("{:?}", c), &mut |o| check_case_inner(o, c, light));
}

fn check_case_inner(o: &mut CompOutcome, c: &Case, light: bool) {
    o.cases += 1;
    let idx = indexer(&c.acks);
    let all_grouped = |set: &[u64]| oracle_group_commit(set, &c.acks);
    // ---------------- majority config directly (this is where the unsafe block lives)
    for half in [&c.incoming, &c.outgoing] {
        let mc = MajorityConfig::new(fxset(half));
        let want = oracle_commit(half, &c.acks);
        let (got, _) = mc.committed_index(false, &idx);
        o.ops += 1;
        if got != want {
            o.violation(
                "C11",
                "majority-commit-index",
                "majority-commit-index-wrong",
                format!("voters {:?} acks {:?}: committed_index = {}, brute force = {}", half, c.acks, got, want),
            );
        }
        let (gg, _flag) = mc.committed_index(true, &idx);
        o.ops += 1;
        if gg > want {
            o.violation(
                "C11",
                "group-commit-bound",
                "group-commit-exceeds-quorum-index",
                format!("voters {:?} acks {:?}: group commit {} > quorum index {}", half, c.acks, gg, want),
            );
        }
        if let Some(w) = all_grouped(half) {
            o.stats.inc("c11.group_commit_exact_cases");
            if gg != w {
                o.violation(
                    "C11",
                    "group-commit-exact",
                    "group-commit-wrong",
                    format!("voters {:?} acks {:?}: group commit {} but the largest index replicated into two groups (<= quorum index) is {}", half, c.acks, gg, w),
                );
            }
        }
        let got_v = vr_of(mc.vote_result(|id| c.votes.get(&id).cloned()));
        let want_v = oracle_vote(half, &c.votes);
        o.ops += 1;
        if got_v != want_v {
            o.violation(
                "C11",
                "majority-vote-result",
                "majority-vote-result-wrong",
                format!("voters {:?} votes {:?}: vote_result = {:?}, brute force = {:?}", half, c.votes, got_v, want_v),
            );
        }
    }
    // ---------------- joint config through the tracker (public path)
    if c.incoming.is_empty() || light {
        return;
    }
    let mut cs = ConfState::default();
    cs.set_voters(c.incoming.clone());
    cs.set_voters_outgoing(c.outgoing.clone());
    let mut tr = ProgressTracker::new(8);
    if restore(&mut tr, 1, &cs).is_err() {
        o.stats.inc("c11.tracker_restore_rejected");
        return;
    }
    let want_i = oracle_commit(&c.incoming, &c.acks);
    let want_o = oracle_commit(&c.outgoing, &c.acks);
    let want = want_i.min(want_o);
    let (got, _) = tr.conf().voters().committed_index(false, &idx);
    o.ops += 1;
    if got != want {
        o.violation(
            "C11",
            "joint-commit-index",
            "joint-commit-index-wrong",
            format!("incoming {:?} outgoing {:?} acks {:?}: committed_index = {}, brute force = {}", c.incoming, c.outgoing, c.acks, got, want),
        );
    }
    let (gg, _) = tr.conf().voters().committed_index(true, &idx);
    if gg > want {
        o.violation(
            "C11",
            "group-commit-bound",
            "joint-group-commit-exceeds-quorum-index",
            format!("incoming {:?} outgoing {:?} acks {:?}: group commit {} > {}", c.incoming, c.outgoing, c.acks, gg, want),
        );
    }
    if let (Some(a), Some(b)) = (all_grouped(&c.incoming), all_grouped(&c.outgoing)) {
        if gg != a.min(b) {
            o.violation(
                "C11",
                "group-commit-exact",
                "joint-group-commit-wrong",
                format!("incoming {:?} outgoing {:?} acks {:?}: group commit {} expected {}", c.incoming, c.outgoing, c.acks, gg, a.min(b)),
            );
        }
    }
    // the same through Progress.matched / maximal_committed_index (every voter has a progress)
    for (id, (i, g)) in &c.acks {
        if let Some(p) = tr.get_mut(*id) {
            p.matched = *i;
            p.commit_group_id = *g;
        }
    }
    let acks_present: BTreeMap<u64, (u64, u64)> = c
        .incoming
        .iter()
        .chain(c.outgoing.iter())
        .map(|id| (*id, c.acks.get(id).cloned().unwrap_or((0, 0))))
        .collect();
    let want_t = oracle_commit(&c.incoming, &acks_present).min(oracle_commit(&c.outgoing, &acks_present));
    let (got_t, _) = tr.maximal_committed_index();
    o.ops += 1;
    if got_t != want_t {
        o.violation(
            "C11",
            "tracker-commit-index",
            "tracker-commit-index-wrong",
            format!("incoming {:?} outgoing {:?} matched {:?}: maximal_committed_index = {}, brute force = {}", c.incoming, c.outgoing, acks_present, got_t, want_t),
        );
    }
    // ... and with the tracker's own group-commit switch on (the path the leader really takes)
    tr.enable_group_commit(true);
    let (gt, _) = tr.maximal_committed_index();
    tr.enable_group_commit(false);
    o.ops += 1;
    if gt > want_t {
        o.violation(
            "C11",
            "group-commit-bound",
            "tracker-group-commit-exceeds-quorum-index",
            format!("incoming {:?} outgoing {:?} matched {:?}: maximal_committed_index with group commit = {} > quorum index {}", c.incoming, c.outgoing, acks_present, gt, want_t),
        );
    }
    if let (Some(a), Some(b)) = (oracle_group_commit(&c.incoming, &acks_present), oracle_group_commit(&c.outgoing, &acks_present)) {
        o.stats.inc("c11.tracker_group_commit_exact_cases");
        if gt != a.min(b) {
            o.violation(
                "C11",
                "group-commit-exact",
                "tracker-group-commit-wrong",
                format!(
                    "incoming {:?} outgoing {:?} matched {:?}: maximal_committed_index with group commit = {}, the largest index replicated into two groups of each half is {}",
                    c.incoming, c.outgoing, acks_present, gt, a.min(b)
                ),
            );
        }
    }
    // votes
    let want_v = joint_vote(oracle_vote(&c.incoming, &c.votes), oracle_vote(&c.outgoing, &c.votes));
    let got_v = vr_of(tr.conf().voters().vote_result(|id| c.votes.get(&id).cloned()));
    o.ops += 1;
    if got_v != want_v {
        o.violation(
            "C11",
            "joint-vote-result",
            "joint-vote-result-wrong",
            format!("incoming {:?} outgoing {:?} votes {:?}: vote_result = {:?}, brute force = {:?}", c.incoming, c.outgoing, c.votes, got_v, want_v),
        );
    }
    tr.reset_votes();
    for (id, v) in &c.votes {
        tr.record_vote(*id, *v);
    }
    let (gr, rj, res) = tr.tally_votes();
    o.ops += 1;
    let members: BTreeSet<u64> = c.incoming.iter().chain(c.outgoing.iter()).cloned().collect();
    let want_gr = c.votes.iter().filter(|(id, v)| **v && members.contains(id)).count();
    let want_rj = c.votes.iter().filter(|(id, v)| !**v && members.contains(id)).count();
    if vr_of(res) != want_v || gr != want_gr || rj != want_rj {
        o.violation(
            "C11",
            "tally-votes",
            "tally-votes-wrong",
            format!("incoming {:?} outgoing {:?} votes {:?}: tally = ({}, {}, {:?}), expected ({}, {}, {:?})", c.incoming, c.outgoing, c.votes, gr, rj, vr_of(res), want_gr, want_rj, want_v),
        );
    }
    let yes: FxSet = c.votes.iter().filter(|(_, v)| **v).map(|(id, _)| *id).collect();
    let yes_only: BTreeMap<u64, bool> = c.votes.iter().filter(|(_, v)| **v).map(|(a, b)| (*a, *b)).collect();
    let want_q = joint_vote(oracle_vote(&c.incoming, &yes_only), oracle_vote(&c.outgoing, &yes_only)) == VR::Won;
    o.ops += 1;
    if tr.has_quorum(&yes) != want_q {
        o.violation(
            "C11",
            "has-quorum",
            "has-quorum-wrong",
            format!("incoming {:?} outgoing {:?} set {:?}: has_quorum = {}, expected {}", c.incoming, c.outgoing, yes, !want_q, want_q),
        );
    }
    let _: FxMap<bool> = FxMap::default();
    // distinct-case fingerprint: sizes, overlap, tie pattern, result class
    let mut f = Fp::new();
    let overlap = c.incoming.iter().filter(|x| c.outgoing.contains(x)).count();
    let mut sorted: Vec<u64> = c.incoming.iter().map(|id| c.acks.get(id).map(|a| a.0).unwrap_or(0)).collect();
    sorted.sort();
    let ties = sorted.windows(2).filter(|w| w[0] == w[1]).count();
    f.u(c.incoming.len() as u64)
        .u(c.outgoing.len() as u64)
        .u(overlap as u64)
        .u(ties as u64)
        .u((want == want_i) as u64)
        .u((want == 0) as u64)
        .u(want_v as u64)
        .u(c.acks.len() as u64)
        .u(c.votes.len() as u64)
        .u(c.acks.values().map(|a| a.1).collect::<BTreeSet<_>>().len() as u64);
    o.stats.hit("C11", f.get());
}

fn random_case(r: &mut Rng) -> Case {
    let ni = r.usize(10);
    let no = if r.chance(1, 2) { 0 } else { r.usize(10) };
    let universe: Vec<u64> = (1..=12).collect();
    let pick = |r: &mut Rng, n: usize| {
        let mut u = universe.clone();
        let mut out = Vec::new();
        for _ in 0..n.min(u.len()) {
            let i = r.usize(u.len());
            out.push(u.swap_remove(i));
        }
        out
    };
    let incoming = pick(r, ni);
    let outgoing = pick(r, no);
    let mut acks = BTreeMap::new();
    let style = r.usize(4);
    for id in universe.iter() {
        if r.chance(1, 6) {
            continue; // never acknowledged
        }
        let idx = match style {
            0 => r.below(4),
            1 => r.below(1000),
            2 => *r.pick(&[0u64, 1, u64::MAX, u64::MAX - 1, 5, 5, 7]),
            _ => r.next(),
        };
        let g = if r.chance(1, 2) { r.below(4) } else { 1 + r.below(3) };
        acks.insert(*id, (idx, g));
    }
    let mut votes = BTreeMap::new();
    for id in universe.iter().chain([13u64, 14].iter()) {
        match r.usize(3) {
            0 => {
                votes.insert(*id, true);
            }
            1 => {
                votes.insert(*id, false);
            }
            _ => {}
        }
    }
    Case { incoming, outgoing, acks, votes }
}

/// Exhaustive part: every subset pair over ids {1..5} (each half <= 5 ids, all overlaps), acked
/// indexes in {0..3} with "missing" as a fifth value, votes in {yes, no, missing}.
fn exhaustive(o: &mut CompOutcome, p: &CompParams) {
    let ids: [u64; 5] = [1, 2, 3, 4, 5];
    let mut n = 0u64;
    // halves: all 32 x 32 subset pairs
    for mi in 0..32u32 {
        for mo in 0..32u32 {
            n += 1;
            if n % p.shards != p.shard {
                continue;
            }
            let incoming: Vec<u64> = ids.iter().cloned().filter(|id| mi >> (id - 1) & 1 == 1).collect();
            let outgoing: Vec<u64> = ids.iter().cloned().filter(|id| mo >> (id - 1) & 1 == 1).collect();
            // acks: 5 values per id (missing, 0..3) -> 5^5 = 3125 assignments; votes tied to the
            // same counter so that both vary through all combinations over the run
            let total = if p.miri { 6 } else { 3125 };
            for a in 0..total {
                let mut acks = BTreeMap::new();
                let mut votes = BTreeMap::new();
                let mut x = if p.miri { (a * 83 + mi * 7 + mo) % 3125 } else { a };
                for id in ids.iter() {
                    let v = x % 5;
                    x /= 5;
                    if v > 0 {
                        acks.insert(*id, ((v - 1) as u64, 1 + (id + v as u64) % 2));
                    }
                    match (v + *id as u32) % 3 {
                        0 => {
                            votes.insert(*id, true);
                        }
                        1 => {
                            votes.insert(*id, false);
                        }
                        _ => {}
                    }
                }
                check_case(o, &Case { incoming: incoming.clone(), outgoing: outgoing.clone(), acks, votes }, p.miri && a % 4 != 0);
            }
        }
    }
    o.exhaustive_part = Some("all 32x32 pairs of voter halves over ids 1..5, every assignment of acked index in {missing,0,1,2,3} (5^5 per pair); votes and groups derived from the same counter".into());
}

/// Miri smoke test of the only `unsafe` block: MajorityConfig::committed_index for every voter
/// count 0..=9 (stack path <= 7, heap path above), with and without group commit.
pub fn unsafe_block_focus(o: &mut CompOutcome, seed: u64) {
    let mut r = Rng::new(seed ^ 0xf0c5);
    for n in 0..=9u64 {
        for rep in 0..2 {
            let ids: Vec<u64> = (1..=n).collect();
            let mut acks = BTreeMap::new();
            for id in &ids {
                if rep == 1 && r.chance(1, 5) {
                    continue;
                }
                acks.insert(*id, (r.below(6), 1 + r.below(2)));
            }
            let c = Case { incoming: ids.clone(), outgoing: vec![], acks, votes: BTreeMap::new() };
            check_case(o, &c, true);
        }
    }
    o.stats.add("c11.unsafe_block_focus_cases", 20);
}

pub fn run(p: &CompParams) -> CompOutcome {
    let mut o = CompOutcome::default();
    if p.miri && p.budget == 0 {
        unsafe_block_focus(&mut o, p.seed);
        return o;
    }
    if p.miri {
        unsafe_block_focus(&mut o, p.seed ^ p.shard);
    }
    exhaustive(&mut o, p);
    let mut r = Rng::new(p.seed ^ 0x11 ^ (p.shard << 32));
    let n = if p.miri { 120 } else { 400_000 * p.budget };
    for k in 0..n {
        let c = random_case(&mut r);
        if k < 2 {
            o.samples.push(format!("{:?}", c));
        }
        check_case(&mut o, &c, p.miri && k % 6 != 0);
    }
    o.stats.add("c11.cases", o.cases);
    o
}
