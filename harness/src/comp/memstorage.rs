//! C19: MemStorage honours the Storage contract (model: snapshot point + contiguous entries).

use std::panic::{catch_unwind, AssertUnwindSafe};

use protobuf::Message as PbMessage;
use raft::eraftpb::{ConfState, Entry, HardState, Snapshot};
use raft::storage::MemStorage;
use raft::{Error, GetEntriesContext, Storage, StorageError};

use super::{CompOutcome, CompParams};
use crate::rng::{Fp, Rng};

#[derive(Clone, Debug)]
struct Model {
    /// snapshot point (index, term); entries follow contiguously
    snap: (u64, u64),
    /// after a compaction the first retained entry moves up; `base` is the index before it
    base: u64,
    base_term: u64,
    ents: Vec<(u64, u64, usize)>, // (index, term, data len)
    hs: (u64, u64, u64),
    conf: Vec<u64>,
}

impl Model {
    fn first(&self) -> u64 {
        self.base + 1
    }
    fn last(&self) -> u64 {
        self.base + self.ents.len() as u64
    }
    fn term(&self, i: u64) -> Option<u64> {
        if i == self.base {
            return Some(self.base_term);
        }
        if i < self.first() || i > self.last() {
            return None;
        }
        Some(self.ents[(i - self.first()) as usize].1)
    }
}

fn ent(index: u64, term: u64, len: usize) -> Entry {
    let mut e = Entry::default();
    e.index = index;
    e.term = term;
    e.data = vec![b'x'; len].into();
    e
}

#[derive(Clone, Debug)]
pub enum Op {
    Append { from: u64, terms: Vec<u64>, len: usize },
    Compact(u64),
    ApplySnapshot { index: u64, term: u64 },
    SetHs { term: u64, vote: u64, commit: u64 },
    CommitTo(u64),
    SetConf(Vec<u64>),
    SnapUnavailable,
}

fn check_queries(o: &mut CompOutcome, s: &MemStorage, m: &Model, ctx: &str) -> bool {
    let first = s.first_index().unwrap();
    let last = s.last_index().unwrap();
    o.ops += 2;
    if first != m.first() || last != m.last() {
        o.violation(
            "C19",
            "first-last-index",
            "first-or-last-index-wrong",
            format!("{}: storage [{}, {}], model [{}, {}]", ctx, first, last, m.first(), m.last()),
        );
        return false;
    }
    // term queries around the retained range
    let lo = m.first().saturating_sub(2);
    for i in lo..=m.last() + 2 {
        o.ops += 1;
        let got = s.term(i);
        let ok = match (&got, m.term(i)) {
            // below first-1: compacted (index 0 on a fresh store is the snapshot point itself)
            (Err(Error::Store(StorageError::Compacted)), None) if i < m.first() => true,
            // the entry before first_index: its term, or the documented Compacted error
            (Ok(t), Some(mt)) if i == m.base => *t == mt,
            (Err(Error::Store(StorageError::Compacted)), Some(_)) if i == m.base && i != m.snap.0 => true,
            (Ok(t), Some(mt)) => *t == mt,
            (Err(Error::Store(StorageError::Unavailable)), None) if i > m.last() => true,
            (Ok(t), None) if i == m.snap.0 => *t == m.snap.1,
            _ => false,
        };
        if !ok {
            o.violation(
                "C19",
                "term-query",
                "term-wrong",
                format!("{}: term({}) = {:?}, model {:?} (first {}, last {}, snapshot {:?})", ctx, i, got, m.term(i), m.first(), m.last(), m.snap),
            );
            return false;
        }
    }
    // range reads
    if !m.ents.is_empty() {
        let limits: [Option<u64>; 5] = [None, Some(0), Some(1), Some(u64::MAX), Some(30)];
        for low in m.first()..=m.last() {
            for high in low + 1..=m.last() + 1 {
                for lim in limits.iter() {
                    o.ops += 1;
                    let got = s.entries(low, high, *lim, GetEntriesContext::empty(false));
                    let got = match got {
                        Ok(g) => g,
                        Err(e) => {
                            o.violation("C19", "entries-query", "entries-error-in-range", format!("{}: entries({}, {}, {:?}) = {:?}", ctx, low, high, lim, e));
                            return false;
                        }
                    };
                    let full: Vec<(u64, u64, usize)> = m.ents[(low - m.first()) as usize..(high - m.first()) as usize].to_vec();
                    let prefix_ok = got.len() <= full.len()
                        && got.iter().zip(full.iter()).all(|(e, w)| e.index == w.0 && e.term == w.1 && e.data.len() == w.2);
                    let mut bad = !prefix_ok || got.is_empty();
                    if !bad {
                        if let Some(l) = lim {
                            if *l != u64::MAX {
                                let size: u64 = got.iter().map(|e| u64::from(e.compute_size())).sum();
                                if got.len() > 1 && size > *l {
                                    bad = true; // over the limit with more than one entry
                                }
                                if got.len() < full.len() {
                                    // maximal: the next entry would not have fitted
                                    let nxt = &full[got.len()];
                                    let ns = u64::from(ent(nxt.0, nxt.1, nxt.2).compute_size());
                                    if size + ns <= *l {
                                        bad = true;
                                    }
                                }
                            } else if got.len() != full.len() {
                                bad = true;
                            }
                        } else if got.len() != full.len() {
                            bad = true;
                        }
                    }
                    if bad {
                        o.violation(
                            "C19",
                            "entries-query",
                            "entries-range-wrong",
                            format!("{}: entries({}, {}, {:?}) returned {} entries {:?}; model range {:?}", ctx, low, high, lim, got.len(), got.iter().map(|e| (e.index, e.term)).collect::<Vec<_>>(), full),
                        );
                        return false;
                    }
                }
            }
        }
    }
    if m.first() > 1 {
        o.ops += 1;
        let got = s.entries(m.first() - 1, m.first(), None, GetEntriesContext::empty(false));
        if !matches!(got, Err(Error::Store(StorageError::Compacted))) {
            o.violation("C19", "entries-query", "compacted-range-not-reported", format!("{}: entries({}, {}) below first index gave {:?}", ctx, m.first() - 1, m.first(), got.map(|g| g.len())));
            return false;
        }
    }
    // initial_state
    let st = s.initial_state().unwrap();
    o.ops += 1;
    if (st.hard_state.term, st.hard_state.vote, st.hard_state.commit) != m.hs || st.conf_state.get_voters() != &m.conf[..] {
        o.violation(
            "C19",
            "initial-state",
            "initial-state-wrong",
            format!("{}: initial_state = {:?} / {:?}, model {:?} / {:?}", ctx, st.hard_state, st.conf_state.get_voters(), m.hs, m.conf),
        );
        return false;
    }
    true
}

fn check_snapshot(o: &mut CompOutcome, s: &MemStorage, m: &Model, req: u64, expect_unavailable: bool, ctx: &str) -> bool {
    o.ops += 1;
    let r = catch_unwind(AssertUnwindSafe(|| s.snapshot(req, 0)));
    let r = match r {
        Ok(r) => r,
        Err(_) => {
            let pm = crate::sim::cluster::LAST_PANIC.with(|p| p.borrow_mut().take()).unwrap_or_default();
            o.violation("C19", "snapshot-query", "snapshot-panicked", format!("{}: snapshot({}) panicked: {} at {} (commit {}, snapshot point {:?}, after-op model {:?})", ctx, req, pm.0, pm.1, m.hs.2, m.snap, m));
            return false;
        }
    };
    match r {
        Err(Error::Store(StorageError::SnapshotTemporarilyUnavailable)) if expect_unavailable => true,
        Ok(snap) if !expect_unavailable => {
            let meta = snap.get_metadata();
            if meta.index < req {
                o.violation("C19", "snapshot-query", "snapshot-below-request", format!("{}: snapshot({}) has index {}", ctx, req, meta.index));
                return false;
            }
            if meta.index == m.hs.2 {
                let want = m.term(meta.index).or(if meta.index == m.snap.0 { Some(m.snap.1) } else { None });
                if Some(meta.term) != want || meta.get_conf_state().get_voters() != &m.conf[..] {
                    o.violation(
                        "C19",
                        "snapshot-query",
                        "snapshot-at-commit-wrong-term-or-conf",
                        format!("{}: snapshot at commit {} has term {} conf {:?}; model term {:?} conf {:?}", ctx, meta.index, meta.term, meta.get_conf_state().get_voters(), want, m.conf),
                    );
                    return false;
                }
            }
            true
        }
        other => {
            o.violation("C19", "snapshot-query", "snapshot-unexpected-result", format!("{}: snapshot({}) = {:?}, expected unavailable = {}", ctx, req, other.map(|s| s.get_metadata().index), expect_unavailable));
            false
        }
    }
}

pub fn run_sequence(o: &mut CompOutcome, ops: &[Op], keep: bool) {
    super::guarded(o, "C19", &|| format!("ops {:?}", ops), &mut |o| run_sequence_inner(o, ops, keep));
}

fn run_sequence_inner(o: &mut CompOutcome, ops: &[Op], keep: bool) {
    o.cases += 1;
    let s = MemStorage::new_with_conf_state((vec![1u64, 2, 3], vec![]));
    let mut m = Model { snap: (0, 0), base: 0, base_term: 0, ents: Vec::new(), hs: (0, 0, 0), conf: vec![1, 2, 3] };
    let mut fp = Fp::new();
    let mut snap_unavail = false;
    for (k, op) in ops.iter().enumerate() {
        let ctx = format!("model {:?} | step {} of {} | last ops {:?}", m, k, ops.len(), &ops[k.saturating_sub(3)..=k]);
        match op {
            Op::Append { from, terms, len } => {
                // documented preconditions: from in [first, last+1]
                // ... and committed entries are never overwritten
                if *from < m.first() || *from > m.last() + 1 || terms.is_empty() || *from <= m.hs.2 {
                    continue;
                }
                let ents: Vec<Entry> = terms.iter().enumerate().map(|(i, t)| ent(from + i as u64, *t, *len)).collect();
                if s.wl().append(&ents).is_err() {
                    o.violation("C19", "append", "append-error", format!("{}: append returned an error", ctx));
                    return;
                }
                m.ents.truncate((*from - m.first()) as usize);
                for e in &ents {
                    m.ents.push((e.index, e.term, *len));
                }
                fp.u(1).u((*from <= m.last()) as u64).u((*from == m.first()) as u64);
            }
            Op::Compact(to) => {
                // preconditions: to <= last + 1, and the application never compacts beyond
                // what it has applied (<= commit)
                if *to > m.last() + 1 || (*to > m.hs.2 && *to > m.first()) {
                    continue;
                }
                if s.wl().compact(*to).is_err() {
                    o.violation("C19", "compact", "compact-error", format!("{}: compact returned an error", ctx));
                    return;
                }
                if *to > m.first() {
                    // entries below `to` are discarded; the term of to-1 is the new boundary
                    let bt = m.term(*to - 1).unwrap();
                    let drop = (*to - m.first()) as usize;
                    m.ents.drain(..drop);
                    m.base = *to - 1;
                    m.base_term = bt;
                }
                fp.u(2).u((*to > m.last()) as u64);
            }
            Op::ApplySnapshot { index, term } => {
                let mut snap = Snapshot::default();
                snap.mut_metadata().index = *index;
                snap.mut_metadata().term = *term;
                let mut cs = ConfState::default();
                cs.set_voters(vec![1, 2, 3, *index % 7 + 4]);
                snap.mut_metadata().set_conf_state(cs.clone());
                let r = s.wl().apply_snapshot(snap);
                if *index < m.first() {
                    // out of date: rejected, nothing changes
                    if !matches!(r, Err(Error::Store(StorageError::SnapshotOutOfDate))) {
                        o.violation("C19", "apply-snapshot", "out-of-date-snapshot-accepted", format!("{}: apply_snapshot({}) with first index {} gave {:?}", ctx, index, m.first(), r));
                        return;
                    }
                    fp.u(3).u(0);
                } else {
                    if r.is_err() {
                        o.violation("C19", "apply-snapshot", "snapshot-rejected", format!("{}: apply_snapshot({}) gave {:?}", ctx, index, r));
                        return;
                    }
                    m.snap = (*index, *term);
                    m.base = *index;
                    m.base_term = *term;
                    m.ents.clear();
                    m.hs.0 = m.hs.0.max(*term);
                    m.hs.2 = *index;
                    m.conf = cs.get_voters().to_vec();
                    fp.u(3).u(1);
                }
            }
            Op::SetHs { term, vote, commit } => {
                // an application keeps commit within [snapshot point, last]
                // the commit index never decreases and stays within the log
                let c = (*commit).clamp(m.hs.2.max(m.snap.0).max(m.base).min(m.last()), m.last());
                let mut hs = HardState::default();
                hs.term = *term;
                hs.vote = *vote;
                hs.commit = c;
                s.wl().set_hardstate(hs);
                m.hs = (*term, *vote, c);
                fp.u(4);
            }
            Op::CommitTo(i) => {
                // precondition: the entry exists
                if *i < m.first() || *i > m.last() || m.ents.is_empty() || *i < m.hs.2 {
                    continue;
                }
                if s.wl().commit_to(*i).is_err() {
                    o.violation("C19", "commit-to", "commit-to-error", format!("{}: commit_to({}) failed", ctx, i));
                    return;
                }
                m.hs.2 = *i;
                m.hs.0 = m.term(*i).unwrap();
                fp.u(5);
            }
            Op::SetConf(v) => {
                let mut cs = ConfState::default();
                cs.set_voters(v.clone());
                s.wl().set_conf_state(cs);
                m.conf = v.clone();
                fp.u(6);
            }
            Op::SnapUnavailable => {
                s.wl().trigger_snap_unavailable();
                snap_unavail = true;
                fp.u(7);
            }
        }
        if !check_queries(o, &s, &m, &ctx) {
            return;
        }
        // snapshot(): only meaningful when the stored commit index is a retained position
        if m.hs.2 >= m.snap.0 && (m.hs.2 == m.snap.0 || m.term(m.hs.2).is_some()) && m.hs.2 >= m.base {
            for req in [0, m.hs.2, m.hs.2 + 2] {
                if !check_snapshot(o, &s, &m, req, snap_unavail, &ctx) {
                    return;
                }
                snap_unavail = false;
            }
        }
    }
    o.stats.hit("C19", fp.get());
    if keep && o.samples.len() < 3 {
        o.samples.push(format!("{:?}", ops));
    }
}

fn random_op(r: &mut Rng, hint_last: u64) -> Op {
    match r.usize(14) {
        0..=5 => {
            let from = 1 + r.below(hint_last + 2);
            let n = 1 + r.usize(4);
            let t0 = 1 + r.below(4);
            let mut terms = Vec::new();
            let mut t = t0;
            for _ in 0..n {
                if r.chance(1, 4) {
                    t += 1;
                }
                terms.push(t);
            }
            Op::Append { from, terms, len: *r.pick(&[0usize, 3, 10, 40]) }
        }
        6..=7 => Op::Compact(1 + r.below(hint_last + 3)),
        8 => Op::ApplySnapshot { index: r.below(hint_last + 4), term: 1 + r.below(6) },
        9 => Op::SetHs { term: r.below(8), vote: r.below(4), commit: r.below(hint_last + 2) },
        10..=11 => Op::CommitTo(1 + r.below(hint_last + 1)),
        12 => Op::SetConf(vec![1, 2, 1 + r.below(9)]),
        _ => Op::SnapUnavailable,
    }
}

/// Small exhaustive alphabet: all sequences of the given length over a fixed op list.
fn enumerate(o: &mut CompOutcome, p: &CompParams, len: usize) {
    let alpha: Vec<Op> = vec![
        Op::Append { from: 1, terms: vec![1, 1], len: 3 },
        Op::Append { from: 2, terms: vec![2], len: 10 },
        Op::Append { from: 3, terms: vec![2, 3, 3], len: 0 },
        Op::Append { from: 4, terms: vec![4], len: 40 },
        Op::Compact(2),
        Op::Compact(4),
        Op::ApplySnapshot { index: 3, term: 2 },
        Op::ApplySnapshot { index: 1, term: 1 },
        Op::CommitTo(2),
        Op::CommitTo(4),
        Op::SetHs { term: 5, vote: 2, commit: 3 },
        Op::SnapUnavailable,
    ];
    let n = alpha.len() as u64;
    let total = n.pow(len as u32);
    let mut idx = p.shard;
    while idx < total {
        let mut x = idx;
        let mut seq = Vec::with_capacity(len);
        for _ in 0..len {
            seq.push(alpha[(x % n) as usize].clone());
            x /= n;
        }
        run_sequence(o, &seq, idx < 2);
        idx += p.shards;
    }
    o.exhaustive_part = Some(format!("every sequence of length {} over a 12-operation alphabet (4 appends incl. overwriting ones, 2 compactions, 2 snapshots, 2 commit_to, set_hardstate, snapshot-unavailable)", len));
}

pub fn run(p: &CompParams) -> CompOutcome {
    let mut o = CompOutcome::default();
    let len = if p.miri { 2 } else if p.budget >= 4 { 5 } else { 4 };
    enumerate(&mut o, p, len);
    let mut r = Rng::new(p.seed ^ 0x19 ^ (p.shard << 32));
    let n = if p.miri { 30 } else { 8_000 * p.budget };
    for _ in 0..n {
        let len = 1 + r.usize(if p.miri { 10 } else { 40 });
        let mut ops = Vec::new();
        let mut hint = 0u64;
        for _ in 0..len {
            let op = random_op(&mut r, hint);
            if let Op::Append { from, terms, .. } = &op {
                if *from <= hint + 1 {
                    hint = from + terms.len() as u64 - 1;
                }
            }
            if let Op::ApplySnapshot { index, .. } = &op {
                hint = hint.max(*index);
            }
            ops.push(op);
        }
        run_sequence(&mut o, &ops, false);
    }
    o.stats.add("c19.sequences", o.cases);
    o.stats.add("c19.queries", o.ops);
    o
}
