//! Component engines: drive one component of the library through its public API (plus the
//! `verif_export` re-exports) with enumerated and random operation sequences and compare every
//! observable with a small executable reference model after every operation.

pub mod confchange;
pub mod inflights;
pub mod memstorage;
pub mod quorum;
pub mod raftlog;

use crate::mon::verdict::{Stats, Violation};

#[derive(Default)]
pub struct CompOutcome {
    pub stats: Stats,
    pub violations: Vec<Violation>,
    pub cases: u64,
    pub ops: u64,
    pub samples: Vec<String>,
    pub exhaustive_part: Option<String>,
}

impl CompOutcome {
    pub fn violation(&mut self, prop: &'static str, monitor: &'static str, sig: &str, detail: String) {
        if self.violations.len() < 20 {
            self.violations.push(Violation {
                prop,
                monitor,
                sig: format!("{}:{}:{}", prop, monitor, sig),
                detail,
                node: 0,
                step: self.cases as usize,
            });
        }
    }
    pub fn merge(&mut self, o: CompOutcome) {
        self.stats.merge(o.stats);
        for v in o.violations {
            if self.violations.len() < 50 {
                self.violations.push(v);
            }
        }
        self.cases += o.cases;
        self.ops += o.ops;
        for s in o.samples {
            if self.samples.len() < 6 {
                self.samples.push(s);
            }
        }
        if self.exhaustive_part.is_none() {
            self.exhaustive_part = o.exhaustive_part;
        }
    }
}

/// Parameters shared by the engines.
#[derive(Clone, Copy)]
pub struct CompParams {
    pub seed: u64,
    /// Scale of the run: 1 = quick, larger = thorough. Under Miri a tiny fraction is used.
    pub budget: u64,
    pub shard: u64,
    pub shards: u64,
    pub miri: bool,
}

/// Runs one case; a panic raised inside the library is a violation of `prop` (the engines only
/// feed inputs the component's documentation allows), a panic anywhere else is a harness error.
pub fn guarded(o: &mut CompOutcome, prop: &'static str, what: &dyn Fn() -> String, f: &mut dyn FnMut(&mut CompOutcome)) {
    let r = std::panic::catch_unwind(std::panic::AssertUnwindSafe(|| f(o)));
    if let Err(e) = r {
        let (msg, loc) = crate::sim::cluster::LAST_PANIC.with(|p| p.borrow_mut().take()).unwrap_or_default();
        if loc.contains("/repo/") {
            let mut sig = String::new();
            let mut in_num = false;
            for c in msg.chars() {
                if c.is_ascii_digit() {
                    if !in_num {
                        sig.push('#');
                    }
                    in_num = true;
                } else {
                    in_num = false;
                    sig.push(c);
                }
                if sig.len() > 70 {
                    break;
                }
            }
            o.violation(prop, "no-panic-on-legal-input", &format!("panic/{}", sig), format!("{}: library panicked at {}: {}", what(), loc, msg));
        } else {
            crate::sim::cluster::LAST_PANIC.with(|p| *p.borrow_mut() = Some((msg, loc)));
            std::panic::resume_unwind(e);
        }
    }
}
