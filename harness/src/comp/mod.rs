//! Component engines: drive one component of the library through its public API (plus the
//! `verif_export` re-exports) with enumerated and random operation sequences and compare every
//! observable with a small executable reference model after every operation.

pub mod confchange;
pub mod inflights;
pub mod memstorage;
pub mod quorum;
pub mod raftlog;

use crate::mon::verdict::{Stats, Violation};

#[derive(Default)]
pub struct CompOutcome {
    pub stats: Stats,
    pub violations: Vec<Violation>,
    pub cases: u64,
    pub ops: u64,
    pub samples: Vec<String>,
    pub exhaustive_part: Option<String>,
}

impl CompOutcome {
    pub fn violation(&mut self, prop: &'static str, monitor: &'static str, sig: &str, detail: String) {
        if self.violations.len() < 20 {
            self.violations.push(Violation {
                prop,
                monitor,
                sig: format!("{}:{}:{}", prop, monitor, sig),
                detail,
                node: 0,
                step: self.cases as usize,
            });
        }
    }
    pub fn merge(&mut self, o: CompOutcome) {
        self.stats.merge(o.stats);
        for v in o.violations {
            if self.violations.len() < 50 {
                self.violations.push(v);
            }
        }
        self.cases += o.cases;
        self.ops += o.ops;
        for s in o.samples {
            if self.samples.len() < 6 {
                self.samples.push(s);
            }
        }
        if self.exhaustive_part.is_none() {
            self.exhaustive_part = o.exhaustive_part;
        }
    }
}

/// Parameters shared by the engines.
#[derive(Clone, Copy)]
pub struct CompParams {
    pub seed: u64,
    /// Scale of the run: 1 = quick, larger = thorough. Under Miri a tiny fraction is used.
    pub budget: u64,
    pub shard: u64,
    pub shards: u64,
    pub miri: bool,
}
