//! C14: RaftLog (stable storage + unstable suffix + pending snapshot) behaves like one plain
//! sequence. Every observer is compared with the sequence model after every operation.

use protobuf::Message as PbMessage;
use raft::eraftpb::{Entry, Snapshot};
use raft::{Config, GetEntriesContext, RaftLog, Storage};

use super::{CompOutcome, CompParams};
use crate::rng::{Fp, Rng};
use crate::sim::storage::{Image, SimStorage};

#[derive(Clone, Debug)]
struct Model {
    /// boundary (index, term): entries start at boundary.0 + 1
    boundary: (u64, u64),
    ents: Vec<(u64, Vec<u8>)>, // (term, data)
    committed: u64,
    applied: u64,
    /// first index held in the unstable part
    offset: u64,
    pending_snap: Option<(u64, u64)>,
    nonce: u64,
}

impl Model {
    fn first(&self) -> u64 {
        self.boundary.0 + 1
    }
    fn last(&self) -> u64 {
        self.boundary.0 + self.ents.len() as u64
    }
    fn term(&self, i: u64) -> u64 {
        if i == self.boundary.0 {
            return self.boundary.1;
        }
        if i < self.first() || i > self.last() {
            return 0;
        }
        self.ents[(i - self.first()) as usize].0
    }
    fn last_term(&self) -> u64 {
        self.term(self.last())
    }
    fn entry(&self, i: u64) -> Entry {
        let (t, d) = &self.ents[(i - self.first()) as usize];
        let mut e = Entry::default();
        e.index = i;
        e.term = *t;
        e.data = d.clone().into();
        e
    }
    fn range(&self, lo: u64, hi: u64) -> Vec<Entry> {
        (lo..hi).map(|i| self.entry(i)).collect()
    }
    fn new_data(&mut self, r: &mut Rng) -> Vec<u8> {
        self.nonce += 1;
        let len = *r.pick(&[0usize, 1, 6, 20]);
        let mut d = format!("{}", self.nonce).into_bytes();
        d.resize(len.max(d.len().min(len + 3)), b'.');
        d
    }
}

fn limited(full: &[Entry], max: Option<u64>) -> Vec<Entry> {
    // the contract: non-empty when the range is, a prefix, maximal within the limit, the first
    // entry always included
    let max = match max {
        None | Some(u64::MAX) => return full.to_vec(),
        Some(m) => m,
    };
    let mut out = Vec::new();
    let mut size = 0u64;
    for e in full {
        let s = u64::from(e.compute_size());
        if !out.is_empty() && size + s > max {
            break;
        }
        size += s;
        out.push(e.clone());
    }
    out
}

struct Eng {
    log: RaftLog<SimStorage>,
    store: SimStorage,
    m: Model,
}

const LIMITS: [Option<u64>; 5] = [None, Some(0), Some(1), Some(25), Some(u64::MAX)];

fn compare(o: &mut CompOutcome, e: &Eng, ctx: &str, deep: bool) -> bool {
    let log = &e.log;
    let m = &e.m;
    macro_rules! bad {
        ($sig:expr, $($arg:tt)*) => {{
            o.violation("C14", "sequence-model", $sig, format!("{}: {}", ctx, format!($($arg)*)));
            return false;
        }};
    }
    o.ops += 1;
    if log.first_index() != m.first() || log.last_index() != m.last() {
        bad!("first-or-last-index-wrong", "log [{}, {}], model [{}, {}]", log.first_index(), log.last_index(), m.first(), m.last());
    }
    if log.last_term() != m.last_term() {
        bad!("last-term-wrong", "last_term {} model {}", log.last_term(), m.last_term());
    }
    if log.committed != m.committed || log.applied != m.applied {
        bad!("markers-wrong", "committed/applied {}/{} model {}/{}", log.committed, log.applied, m.committed, m.applied);
    }
    if !(m.applied <= m.committed && m.committed <= m.last()) {
        bad!("marker-order", "applied {} committed {} last {}", m.applied, m.committed, m.last());
    }
    let lo = m.first().saturating_sub(2);
    for i in lo..=m.last() + 2 {
        let got = log.term(i);
        if got.as_ref().ok() != Some(&m.term(i)) {
            bad!("term-wrong", "term({}) = {:?}, model {}", i, got, m.term(i));
        }
        for t in 0..=m.last_term() + 1 {
            if log.match_term(i, t) != (m.term(i) == t) {
                bad!("match-term-wrong", "match_term({}, {}) = {}, model term {}", i, t, log.match_term(i, t), m.term(i));
            }
        }
    }
    // the whole retained log
    let all = log.all_entries();
    let want = m.range(m.first(), m.last() + 1);
    if all != want {
        bad!("entries-differ", "all_entries {:?} model {:?}", all.iter().map(|e| (e.index, e.term)).collect::<Vec<_>>(), want.iter().map(|e| (e.index, e.term)).collect::<Vec<_>>());
    }
    // unstable part
    let ue = log.unstable_entries();
    let uw = if m.offset <= m.last() { m.range(m.offset.max(m.first()), m.last() + 1) } else { vec![] };
    if ue != &uw[..] || log.unstable.offset != m.offset {
        bad!("unstable-suffix-wrong", "unstable offset {} len {}, model offset {} len {}", log.unstable.offset, ue.len(), m.offset, uw.len());
    }
    // persisted never exceeds what storage holds with matching terms
    let p = log.persisted;
    if p >= m.first() && p <= m.last() {
        let st = e.store.term(p).ok();
        if st != Some(m.term(p)) {
            bad!("persisted-not-in-storage", "persisted {} but storage term there is {:?}, log term {}", p, st, m.term(p));
        }
    } else if p > m.last() && m.pending_snap.is_none() {
        bad!("persisted-beyond-log", "persisted {} last {}", p, m.last());
    }
    if m.pending_snap.is_none() && p >= m.offset {
        bad!("persisted-inside-unstable", "persisted {} but unstable starts at {}", p, m.offset);
    }
    // commit_info
    if log.commit_info() != (m.committed, m.term(m.committed)) {
        bad!("commit-info-wrong", "commit_info {:?} model ({}, {})", log.commit_info(), m.committed, m.term(m.committed));
    }
    // is_up_to_date
    for i in [m.last().saturating_sub(1), m.last(), m.last() + 1] {
        for t in [m.last_term().saturating_sub(1), m.last_term(), m.last_term() + 1] {
            let want = t > m.last_term() || (t == m.last_term() && i >= m.last());
            if log.is_up_to_date(i, t) != want {
                bad!("is-up-to-date-wrong", "is_up_to_date({}, {}) = {}, last ({}, {})", i, t, !want, m.last(), m.last_term());
            }
        }
    }
    // next entries
    let lim = log.max_apply_unpersisted_log_limit;
    for since in [m.applied, m.applied.saturating_sub(1), m.first().saturating_sub(1), m.committed] {
        let off = (since + 1).max(m.first());
        let high = m.committed.min(p.saturating_add(lim)) + 1;
        let has = high > off;
        if log.has_next_entries_since(since) != has {
            bad!("has-next-entries-wrong", "has_next_entries_since({}) = {}, expected {} (committed {}, persisted {})", since, !has, has, m.committed, p);
        }
        for l in [None, Some(0u64), Some(25)] {
            let got = log.next_entries_since(since, l);
            let wantv = if has { Some(limited(&m.range(off, high.min(m.last() + 1)), l)) } else { None };
            if got != wantv {
                bad!("next-entries-wrong", "next_entries_since({}, {:?}) = {:?}, expected {:?}", since, l, got.map(|v| v.iter().map(|e| e.index).collect::<Vec<_>>()), wantv.map(|v| v.iter().map(|e| e.index).collect::<Vec<_>>()));
            }
        }
    }
    if !deep {
        return true;
    }
    // slices and entries with size limits
    for lo in m.first()..=m.last() + 1 {
        for l in LIMITS.iter() {
            let got = log.entries(lo, *l, GetEntriesContext::empty(false));
            let wantv = limited(&m.range(lo, m.last() + 1), *l);
            if got.as_ref().ok() != Some(&wantv) {
                bad!("entries-query-wrong", "entries({}, {:?}) = {:?}, expected indexes {:?}", lo, l, got.map(|v| v.iter().map(|e| e.index).collect::<Vec<_>>()), wantv.iter().map(|e| e.index).collect::<Vec<_>>());
            }
        }
        for hi in lo..=m.last() + 1 {
            for l in LIMITS.iter() {
                o.ops += 1;
                let got = log.slice(lo, hi, *l, GetEntriesContext::empty(false));
                let wantv = limited(&m.range(lo, hi), *l);
                if got.as_ref().ok() != Some(&wantv) {
                    bad!("slice-wrong", "slice({}, {}, {:?}) = {:?}, expected indexes {:?}", lo, hi, l, got.map(|v| v.iter().map(|e| e.index).collect::<Vec<_>>()), wantv.iter().map(|e| e.index).collect::<Vec<_>>());
                }
            }
        }
    }
    // the same reads through an asynchronous-capable context while the storage answers
    // "temporarily unavailable": a read that needs any stable entry must report exactly that, a
    // read that lies in the unstable part must still be answered like the model
    let stable_last = e.store.with(|s| s.vol.last_index());
    for lo in m.first()..=m.last() + 1 {
        for hi in lo..=m.last() + 1 {
            if hi == lo {
                continue;
            }
            e.store.with_mut(|s| s.fetch_unavailable = 1);
            let got = log.slice(lo, hi, None, GetEntriesContext::empty(true));
            let consulted = e.store.with_mut(|s| {
                let c = s.fetch_unavailable == 0;
                s.fetch_unavailable = 0;
                s.pending_fetch.clear();
                c
            });
            o.ops += 1;
            o.stats.inc("c14.async_unavailable_reads");
            let needs_stable = lo <= stable_last.min(log.unstable.offset.saturating_sub(1));
            let wantv = m.range(lo, hi);
            match (&got, needs_stable) {
                (Err(raft::Error::Store(raft::StorageError::LogTemporarilyUnavailable)), true) => {}
                (Ok(v), false) if *v == wantv && !consulted => {}
                _ => {
                    bad!(
                        "async-read-wrong",
                        "slice({}, {}) with an async context while storage is temporarily unavailable (stable part ends at {}, unstable starts at {}) = {:?}, expected {}",
                        lo,
                        hi,
                        stable_last,
                        log.unstable.offset,
                        got.as_ref().map(|v| v.iter().map(|e| e.index).collect::<Vec<_>>()).map_err(|e| format!("{:?}", e)),
                        if needs_stable { "Err(LogTemporarilyUnavailable)".to_string() } else { format!("indexes {:?}", wantv.iter().map(|e| e.index).collect::<Vec<_>>()) }
                    );
                }
            }
        }
    }
    // find_conflict_by_term
    for i in m.first().saturating_sub(1)..=m.last() {
        for t in 0..=m.last_term() + 1 {
            let mut k = i;
            let want = loop {
                let tt = m.term(k);
                if tt > t {
                    k -= 1;
                } else {
                    break (k, Some(tt));
                }
            };
            let got = log.find_conflict_by_term(i, t);
            if got != want {
                bad!("find-conflict-by-term-wrong", "find_conflict_by_term({}, {}) = {:?}, expected {:?}", i, t, got, want);
            }
        }
    }
    true
}

fn write_ready(e: &mut Eng) {
    // what RawNode::ready/advance make the application do: snapshot first, then entries
    if let Some(snap) = e.log.unstable_snapshot().clone() {
        e.store.install_snapshot(&snap, 0);
        e.log.stable_snap(snap.get_metadata().index);
        e.m.pending_snap = None;
    }
    let ents = e.log.unstable_entries().to_vec();
    if let Some(last) = ents.last() {
        e.store.append(&ents).expect("model and storage disagree about what can be written");
        e.log.stable_entries(last.index, last.term);
        e.m.offset = last.index + 1;
    }
}

pub fn run_sequence(o: &mut CompOutcome, r: &mut Rng, len: usize, deep_every: usize, keep: bool, trace: &mut Vec<String>) {
    o.cases += 1;
    // start: empty log, or a log that starts after a snapshot point
    let mut img = Image::default();
    let start = *r.pick(&[0u64, 0, 3]);
    if start > 0 {
        img.snap_index = start;
        img.snap_term = 1;
        img.hs.commit = start;
        img.applied = start;
    }
    let store = SimStorage::new(img);
    let mut cfg = Config::new(1);
    cfg.max_apply_unpersisted_log_limit = *r.pick(&[0u64, 0, 2]);
    let logger = slog::Logger::root(slog::Discard, slog::o!());
    let log = RaftLog::new(store.clone(), logger, &cfg);
    let mut e = Eng {
        log,
        store,
        m: Model { boundary: (start, if start > 0 { 1 } else { 0 }), ents: vec![], committed: start, applied: start, offset: start + 1, pending_snap: None, nonce: 0 },
    };
    trace.clear();
    let mut fp = Fp::new();
    let mut cur_term = 1u64;
    for step in 0..len {
        let m_owned = e.m.clone();
        let m = &m_owned;
        let kind = r.usize(20);
        let desc;
        match kind {
            0..=3 => {
                // leader-style append at the end
                if r.chance(1, 4) {
                    cur_term += 1;
                }
                let t = cur_term.max(m.last_term());
                cur_term = t;
                let n = 1 + r.usize(3);
                let mut ents = Vec::new();
                for j in 0..n {
                    let d = e.m.new_data(r);
                    let mut x = Entry::default();
                    x.index = e.m.last() + 1 + j as u64;
                    x.term = t;
                    x.data = d.clone().into();
                    ents.push((x, d));
                }
                let es: Vec<Entry> = ents.iter().map(|x| x.0.clone()).collect();
                let ret = e.log.append(&es);
                for (x, d) in ents {
                    e.m.ents.push((x.term, d));
                }
                desc = format!("append({} entries term {}) -> {}", n, t, ret);
                fp.u(1).u(n as u64);
                if ret != e.m.last() {
                    o.violation("C14", "append", "append-return-wrong", format!("{:?} | {}: returned {} last {}", trace, desc, ret, e.m.last()));
                    return;
                }
            }
            4..=9 => {
                // follower-style maybe_append
                let lo = m.first().saturating_sub(1);
                let idx = if r.chance(1, 10) { m.last() + 1 + r.below(2) } else { lo + r.below(m.last() - lo + 1) };
                let in_range = idx >= lo && idx <= m.last();
                // a real leader's (index, term) anchor never has term 0 except at index 0
                let good_term = if in_range { m.term(idx) } else { cur_term.max(1) };
                let term = if r.chance(1, 6) || (good_term == 0 && idx != 0) { good_term + 1 } else { good_term };
                let matches = in_range && term == m.term(idx);
                let n = r.usize(5);
                // divergence point: not at or below the commit index
                let dv_lo = (idx + 1).max(m.committed + 1);
                let dv = if r.chance(1, 2) { u64::MAX } else { dv_lo + r.below((m.last() + 2).saturating_sub(dv_lo).max(1)) };
                let mut ents: Vec<Entry> = Vec::new();
                let mut new_term = 0;
                for j in 0..n as u64 {
                    let i = idx + 1 + j;
                    if matches && i < dv && i <= m.last() && i >= m.first() {
                        ents.push(m.entry(i));
                    } else {
                        if new_term == 0 {
                            let prev = ents.last().map(|x| x.term).unwrap_or(term);
                            let existing = if i <= m.last() { m.term(i) } else { 0 };
                            new_term = prev.max(existing + 1).max(cur_term);
                            cur_term = cur_term.max(new_term);
                        }
                        let d = e.m.new_data(r);
                        let mut x = Entry::default();
                        x.index = i;
                        x.term = new_term;
                        x.data = d.into();
                        ents.push(x);
                    }
                }
                let commit = r.below(idx + n as u64 + 3);
                let got = e.log.maybe_append(idx, term, commit, &ents);
                desc = format!("maybe_append(prev ({}, {}), commit {}, entries {:?}) -> {:?}", idx, term, commit, ents.iter().map(|x| (x.index, x.term)).collect::<Vec<_>>(), got);
                let pos = if idx < m.offset { 0 } else { 1 };
                fp.u(2).u(matches as u64).u(pos).u((idx <= m.committed) as u64).u(n as u64);
                if matches {
                    let conflict = ents.iter().find(|x| x.index > m.last() || m.term(x.index) != x.term).map(|x| x.index).unwrap_or(0);
                    let last_new = idx + n as u64;
                    if got != Some((conflict, last_new)) {
                        o.violation("C14", "maybe-append", "maybe-append-return-wrong", format!("{:?} | {}: expected Some(({}, {}))", trace, desc, conflict, last_new));
                        return;
                    }
                    if conflict != 0 {
                        let keep_n = (conflict - e.m.first()) as usize;
                        e.m.ents.truncate(keep_n);
                        for x in ents.iter().filter(|x| x.index >= conflict) {
                            e.m.ents.push((x.term, x.data.to_vec()));
                        }
                        if conflict < e.m.offset {
                            e.m.offset = conflict;
                        }
                        fp.u((conflict <= e.log.persisted + 1) as u64);
                    }
                    e.m.committed = e.m.committed.max(commit.min(last_new));
                } else if got.is_some() {
                    o.violation("C14", "maybe-append", "maybe-append-accepted-mismatch", format!("{:?} | {}: prev does not match the log", trace, desc));
                    return;
                }
            }
            10 => {
                let c = m.committed + r.below(m.last() - m.committed + 1);
                e.log.commit_to(c);
                e.m.committed = e.m.committed.max(c);
                desc = format!("commit_to({})", c);
                fp.u(3);
            }
            11 => {
                let i = m.first().saturating_sub(1) + r.below(m.last() + 2 - m.first().saturating_sub(1));
                // callers always pass a real (non-zero) term
                let t = if r.chance(1, 4) { m.term(i) + 1 } else { m.term(i).max(1) };
                let want = i > m.committed && i <= m.last() && m.term(i) == t;
                let got = e.log.maybe_commit(i, t);
                desc = format!("maybe_commit({}, {}) -> {}", i, t, got);
                if got != want {
                    o.violation("C14", "maybe-commit", "maybe-commit-wrong", format!("{:?} | {}: expected {}", trace, desc, want));
                    return;
                }
                if got {
                    e.m.committed = i;
                }
                fp.u(4).u(got as u64);
            }
            12..=14 => {
                write_ready(&mut e);
                desc = "ready-cycle: write snapshot/entries, stable_snap/stable_entries".to_string();
                fp.u(5);
            }
            15..=16 => {
                // persistence notice: the usual one, or a stale / wrong one
                let (i, t) = if r.chance(2, 3) && m.offset > m.first() {
                    let i = m.offset - 1;
                    (i, m.term(i))
                } else {
                    let i = m.first().saturating_sub(1) + r.below(m.last() + 2 - m.first().saturating_sub(1));
                    (i, if r.chance(1, 4) { m.term(i) + 1 } else { m.term(i) })
                };
                let before = e.log.persisted;
                let first_update = m.pending_snap.map(|s| s.0).unwrap_or(m.offset);
                let stored = e.store.term(i).ok();
                let want = i > before && i < first_update && stored == Some(t);
                let got = e.log.maybe_persist(i, t);
                desc = format!("maybe_persist({}, {}) -> {}", i, t, got);
                fp.u(6).u(got as u64).u((i >= m.offset) as u64);
                if got != want {
                    o.violation("C14", "maybe-persist", "maybe-persist-wrong", format!("{:?} | {}: expected {} (persisted {}, first unwritten {}, storage term {:?})", trace, desc, want, before, first_update, stored));
                    return;
                }
            }
            17 => {
                // snapshot restore at or above the commit index
                let i = m.committed + r.below(4);
                if i == 0 {
                    continue;
                }
                let t = if i <= m.last() && r.chance(1, 2) { m.term(i).max(1) } else { cur_term.max(m.last_term()).max(1) };
                cur_term = cur_term.max(t);
                let mut s = Snapshot::default();
                s.mut_metadata().index = i;
                s.mut_metadata().term = t;
                e.log.restore(s);
                e.m.boundary = (i, t);
                e.m.ents.clear();
                e.m.committed = i;
                e.m.offset = i + 1;
                e.m.pending_snap = Some((i, t));
                desc = format!("restore(snapshot {} term {})", i, t);
                fp.u(7);
            }
            18 => {
                // apply progress; the application applies what it was handed: committed and,
                // unless the limit allows more, persisted
                let hi = m.committed.min(e.log.persisted.saturating_add(e.log.max_apply_unpersisted_log_limit)).max(m.applied);
                let i = m.applied + r.below(hi - m.applied + 1);
                #[allow(deprecated)]
                e.log.applied_to(i);
                e.m.applied = e.m.applied.max(i);
                desc = format!("applied_to({})", i);
                fp.u(8);
            }
            _ => {
                // storage compaction of an applied, stable prefix
                if m.pending_snap.is_some() {
                    continue;
                }
                let (sfirst, slast) = e.store.with(|s| (s.vol.first_index(), s.vol.last_index()));
                let hi = m.applied.min(slast).min(m.offset.saturating_sub(1));
                if hi < sfirst {
                    continue;
                }
                let to = sfirst + r.below(hi - sfirst + 1);
                e.store.with_mut(|s| s.vol.applied = m.applied.min(slast));
                if !e.store.checkpoint() || !e.store.compact(to) {
                    continue;
                }
                let t = e.m.term(to);
                let drop = (to + 1 - e.m.first()) as usize;
                e.m.ents.drain(..drop);
                e.m.boundary = (to, t);
                desc = format!("storage compact to {}", to);
                fp.u(9);
            }
        }
        // a snapshot that has just been written moves the applied index with it
        if e.m.pending_snap.is_none() && e.m.applied < e.m.boundary.0 && e.log.applied < e.m.boundary.0 {
            #[allow(deprecated)]
            e.log.applied_to(e.m.boundary.0);
            e.m.applied = e.m.boundary.0;
        }
        trace.push(desc);
        let deep = deep_every > 0 && (step % deep_every == 0 || e.m.ents.len() <= 4);
        let ctx = format!("{:?}", trace);
        if !compare(o, &e, &ctx, deep) {
            return;
        }
    }
    o.stats.hit("C14", fp.get());
    o.stats.add("c14.operations", len as u64);
    if keep && o.samples.len() < 3 {
        o.samples.push(format!("{:?}", trace));
    }
}

pub fn run(p: &CompParams) -> CompOutcome {
    let mut o = CompOutcome::default();
    let mut r = Rng::new(p.seed ^ 0x14 ^ (p.shard << 32));
    let n = if p.miri { 12 } else { 6_000 * p.budget };
    for k in 0..n {
        let len = if p.miri { 8 + r.usize(10) } else { 5 + r.usize(40) };
        let mut trace = Vec::new();
        let res = std::panic::catch_unwind(std::panic::AssertUnwindSafe(|| {
            run_sequence(&mut o, &mut r, len, if p.miri { 4 } else { 2 }, k < 2, &mut trace)
        }));
        if res.is_err() {
            let (msg, loc) = crate::sim::cluster::LAST_PANIC.with(|p| p.borrow_mut().take()).unwrap_or_default();
            let sig: String = msg.chars().map(|c| if c.is_ascii_digit() { '#' } else { c }).take(60).collect();
            o.violation("C14", "no-panic-on-legal-sequence", &format!("panic/{}", sig), format!("{:?}: panicked at {}: {}", trace, loc, msg));
        }
        if o.violations.len() >= 5 {
            break;
        }
    }
    o.stats.add("c14.sequences", o.cases);
    o.stats.add("c14.observer_comparisons", o.ops);
    o
}
