//! C12: configuration-change algebra. Breadth-first walk over the configurations reachable
//! from seed configurations through `Changer::{simple, enter_joint, leave_joint}` +
//! `ProgressTracker::apply_conf`, compared with the reference algebra and checked for the
//! structural invariants, restore round-trip and quorum overlap.

use std::collections::{BTreeMap, BTreeSet, VecDeque};
use std::hash::BuildHasherDefault;

use raft::eraftpb::{ConfChangeSingle, ConfChangeTransition, ConfChangeType, ConfChangeV2, ConfState};
use raft::storage::MemStorage;
use raft::verif_export::restore;
use raft::{Changer, Config, ProgressTracker, RawNode};

use super::{CompOutcome, CompParams};
use crate::model::confalg::{self, Ch};
use crate::rng::{Fp, Rng};
use crate::sim::types::Conf;

type FxSet = std::collections::HashSet<u64, BuildHasherDefault<fxhash::FxHasher>>;

fn conf_of_tracker(t: &ProgressTracker) -> Conf {
    Conf::from_cs(&t.conf().to_conf_state())
}

fn tracker_of(c: &Conf) -> Option<ProgressTracker> {
    let mut t = ProgressTracker::new(4);
    restore(&mut t, 1, &c.to_cs()).ok()?;
    Some(t)
}

fn single(ch: &Ch) -> ConfChangeSingle {
    let mut s = ConfChangeSingle::default();
    match ch {
        Ch::AddVoter(id) => {
            s.set_change_type(ConfChangeType::AddNode);
            s.node_id = *id;
        }
        Ch::AddLearner(id) => {
            s.set_change_type(ConfChangeType::AddLearnerNode);
            s.node_id = *id;
        }
        Ch::Remove(id) => {
            s.set_change_type(ConfChangeType::RemoveNode);
            s.node_id = *id;
        }
    }
    s
}

#[derive(Clone, Copy, Debug, PartialEq, Eq)]
pub enum Kind {
    Simple,
    Enter(bool),
    Leave,
}

fn progress_keys(t: &ProgressTracker) -> BTreeSet<u64> {
    t.iter().map(|(id, _)| *id).collect()
}

struct Ctx {
    overlap_memo: BTreeMap<(Conf, Conf), bool>,
}

/// Any deciding quorum of `a` intersects any deciding quorum of `b` (all subsets of ids 1..=6).
fn quorums_overlap(a: &ProgressTracker, b: &ProgressTracker, ca: &Conf, cb: &Conf, o: &mut CompOutcome) -> bool {
    let ids: Vec<u64> = (1..=6).collect();
    let mut qa = Vec::new();
    let mut qb = Vec::new();
    for mask in 0u32..64 {
        let set: FxSet = ids.iter().cloned().filter(|id| mask >> (id - 1) & 1 == 1).collect();
        let bset: BTreeSet<u64> = set.iter().cloned().collect();
        let la = a.has_quorum(&set);
        let lb = b.has_quorum(&set);
        // the library's notion of quorum must agree with the brute-force one
        if la != ca.is_quorum(&bset) || lb != cb.is_quorum(&bset) {
            o.violation(
                "C12",
                "has-quorum-agrees",
                "has-quorum-differs-from-set-algebra",
                format!("has_quorum({:?}) = {}/{} but set algebra says {}/{} for {:?} / {:?}", bset, la, lb, ca.is_quorum(&bset), cb.is_quorum(&bset), ca, cb),
            );
            return false;
        }
        if la {
            qa.push(mask);
        }
        if lb {
            qb.push(mask);
        }
    }
    for x in &qa {
        for y in &qb {
            if x & y == 0 {
                return false;
            }
        }
    }
    true
}

fn check_transition(o: &mut CompOutcome, cx: &mut Ctx, base: &Conf, kind: Kind, chs: &[Ch]) -> Option<Conf> {
    let mut out = None;
    super::guarded(o, "C12", &|| format!("{:?} {:?} on {:?}", kind, chs, base), &mut |o| out = check_transition_inner(o, cx, base, kind, chs));
    out
}

fn check_transition_inner(o: &mut CompOutcome, cx: &mut Ctx, base: &Conf, kind: Kind, chs: &[Ch]) -> Option<Conf> {
    o.cases += 1;
    let t = match tracker_of(base) {
        Some(t) => t,
        None => {
            o.violation("C12", "restore", "restore-of-reachable-conf-failed", format!("restore({:?}) failed", base));
            return None;
        }
    };
    let ccs: Vec<ConfChangeSingle> = chs.iter().map(single).collect();
    let lib = match kind {
        Kind::Simple => Changer::new(&t).simple(&ccs),
        Kind::Enter(al) => Changer::new(&t).enter_joint(al, &ccs),
        Kind::Leave => Changer::new(&t).leave_joint(),
    };
    o.ops += 1;
    let model = match kind {
        Kind::Simple => confalg::simple(base, chs),
        Kind::Enter(al) => confalg::enter_joint(base, al, chs),
        Kind::Leave => confalg::leave_joint(base),
    };
    let mut f = Fp::new();
    f.u(match kind {
        Kind::Simple => 1,
        Kind::Enter(true) => 2,
        Kind::Enter(false) => 3,
        Kind::Leave => 4,
    })
    .u(lib.is_ok() as u64);
    base.fp(&mut f);
    for c in chs {
        match c {
            Ch::AddVoter(i) => f.u(1).u(*i),
            Ch::AddLearner(i) => f.u(2).u(*i),
            Ch::Remove(i) => f.u(3).u(*i),
        };
    }
    o.stats.hit("C12", f.get());
    match (lib, model) {
        (Err(_), Err(_)) => {
            o.stats.inc("c12.rejected");
            // a rejected change leaves everything untouched
            if conf_of_tracker(&t) != *base {
                o.violation("C12", "rejected-untouched", "rejected-change-altered-tracker", format!("{:?} {:?} on {:?}", kind, chs, base));
            }
            None
        }
        (Ok(_), Err(e)) => {
            o.violation("C12", "accept-reject-agree", "library-accepted-what-reference-rejects", format!("{:?} {:?} on {:?}: reference rejects ({})", kind, chs, base, e));
            None
        }
        (Err(e), Ok(n)) => {
            o.violation("C12", "accept-reject-agree", "library-rejected-what-reference-accepts", format!("{:?} {:?} on {:?}: library error {:?}, reference gives {:?}", kind, chs, base, e, n));
            None
        }
        (Ok((cfg, changes)), Ok(want)) => {
            o.stats.inc("c12.accepted");
            let mut t2 = t.clone();
            t2.apply_conf(cfg, changes, 7);
            let got = conf_of_tracker(&t2);
            if got != want {
                o.violation("C12", "result-equals-reference", "result-differs-from-reference", format!("{:?} {:?} on {:?}: library {:?}, reference {:?}", kind, chs, base, got, want));
                return None;
            }
            if let Err(e) = confalg::invariants(&got) {
                o.violation("C12", "invariants", "invariant-broken", format!("{:?} {:?} on {:?} gives {:?}: {}", kind, chs, base, got, e));
                return None;
            }
            let keys = progress_keys(&t2);
            if keys != got.members() {
                o.violation("C12", "progress-tracks-members", "progress-keys-differ-from-members", format!("{:?} {:?} on {:?}: progress for {:?}, members {:?}", kind, chs, base, keys, got.members()));
                return None;
            }
            if kind == Kind::Simple && got.voters.symmetric_difference(&base.voters).count() > 1 {
                o.violation("C12", "simple-changes-one-voter", "simple-changed-more-than-one-voter", format!("{:?} on {:?} gives {:?}", chs, base, got));
                return None;
            }
            // restore round trip
            match tracker_of(&got) {
                Some(t3) => {
                    if conf_of_tracker(&t3) != got || progress_keys(&t3) != got.members() {
                        o.violation("C12", "restore-round-trip", "restore-does-not-reproduce", format!("restore({:?}) gives {:?}", got, conf_of_tracker(&t3)));
                        return None;
                    }
                }
                None => {
                    o.violation("C12", "restore-round-trip", "restore-of-reachable-conf-failed", format!("restore({:?}) failed", got));
                    return None;
                }
            }
            // quorum overlap (memoised per pair of configurations)
            let key = (base.clone(), got.clone());
            let ok = match cx.overlap_memo.get(&key) {
                Some(v) => *v,
                None => {
                    let v = quorums_overlap(&t, &t2, base, &got, o);
                    o.stats.inc("c12.overlap_pairs_checked");
                    cx.overlap_memo.insert(key, v);
                    v
                }
            };
            if !ok {
                o.violation("C12", "quorum-overlap", "disjoint-quorums-across-change", format!("{:?} {:?}: {:?} -> {:?} admit disjoint deciding quorums", kind, chs, base, got));
                return None;
            }
            Some(got)
        }
    }
}

fn check_raft_new(o: &mut CompOutcome, c: &Conf) {
    // a node that is a member starts from storage holding this ConfState
    let id = match c.members().into_iter().next() {
        Some(i) => i,
        None => return,
    };
    let store = MemStorage::new();
    store.initialize_with_conf_state(c.to_cs());
    let cfg = Config::new(id);
    let logger = slog::Logger::root(slog::Discard, slog::o!());
    let r = std::panic::catch_unwind(std::panic::AssertUnwindSafe(|| RawNode::new(&cfg, store, &logger)));
    o.ops += 1;
    match r {
        Ok(Ok(n)) => {
            let got = Conf::from_cs(&n.raft.prs().conf().to_conf_state());
            if got != *c {
                o.violation("C12", "raft-new-restores", "raft-new-conf-differs", format!("Raft::new from {:?} has {:?}", c, got));
            }
        }
        Ok(Err(e)) => o.violation("C12", "raft-new-restores", "raft-new-error", format!("Raft::new from {:?}: {:?}", c, e)),
        Err(_) => o.violation("C12", "raft-new-restores", "raft-new-panicked", format!("Raft::new from {:?} panicked", c)),
    }
}

fn all_changes() -> Vec<Ch> {
    let mut v = Vec::new();
    for id in 0..=6u64 {
        v.push(Ch::AddVoter(id));
        v.push(Ch::AddLearner(id));
        v.push(Ch::Remove(id));
    }
    v
}

fn check_v2_classification(o: &mut CompOutcome, r: &mut Rng) {
    let trs = [ConfChangeTransition::Auto, ConfChangeTransition::Implicit, ConfChangeTransition::Explicit];
    for tr in trs {
        for n in 0..4usize {
            let mut cc = ConfChangeV2::default();
            cc.set_transition(tr);
            for _ in 0..n {
                cc.mut_changes().push(single(&Ch::AddVoter(1 + r.below(5))));
            }
            let want = confalg::classify(&cc);
            let got = if cc.leave_joint() {
                confalg::Kind::Leave
            } else if let Some(al) = cc.enter_joint() {
                confalg::Kind::Enter { auto_leave: al }
            } else {
                confalg::Kind::Simple
            };
            o.ops += 1;
            if want != got {
                o.violation("C12", "v2-classification", "conf-change-v2-misclassified", format!("transition {:?} with {} changes: library {:?}, expected {:?}", tr, n, got, want));
            }
        }
    }
}

pub fn run(p: &CompParams) -> CompOutcome {
    let mut o = CompOutcome::default();
    let mut cx = Ctx { overlap_memo: BTreeMap::new() };
    let mut r = Rng::new(p.seed ^ 0x12 ^ (p.shard << 32));
    check_v2_classification(&mut o, &mut r);
    let changes = all_changes();
    // seeds: a few simple and joint configurations
    let mut seeds = vec![
        Conf { voters: [1].into(), ..Default::default() },
        Conf { voters: [1, 2, 3].into(), ..Default::default() },
        Conf { voters: [1, 2, 3].into(), learners: [4].into(), ..Default::default() },
        Conf { voters: [1, 2].into(), outgoing: [1, 2, 3].into(), learners_next: [3].into(), auto_leave: true, ..Default::default() },
    ];
    seeds.rotate_left((p.shard % 4) as usize);
    let mut seen: BTreeSet<Conf> = BTreeSet::new();
    let mut queue: VecDeque<(Conf, u32)> = VecDeque::new();
    for s in seeds {
        seen.insert(s.clone());
        queue.push_back((s, 0));
    }
    let max_confs = if p.miri { 6 } else { 700 * p.budget as usize };
    let lists_per_conf = if p.miri { 12 } else { 160 };
    let mut visited = 0usize;
    let mut exhaustive_len1 = true;
    while let Some((c, depth)) = queue.pop_front() {
        if visited >= max_confs {
            exhaustive_len1 = false;
            break;
        }
        visited += 1;
        check_raft_new(&mut o, &c);
        let mut lists: Vec<Vec<Ch>> = Vec::new();
        // every single change (exhaustive), plus random lists of length 2 and 3
        if !p.miri {
            for ch in &changes {
                lists.push(vec![*ch]);
            }
        }
        for _ in 0..lists_per_conf {
            let n = 2 + r.usize(2);
            lists.push((0..n).map(|_| *r.pick(&changes)).collect());
        }
        lists.push(vec![]);
        for l in &lists {
            for kind in [Kind::Simple, Kind::Enter(true), Kind::Enter(false)] {
                if let Some(n) = check_transition(&mut o, &mut cx, &c, kind, l) {
                    if n.members().iter().all(|id| *id <= 6) && seen.insert(n.clone()) {
                        queue.push_back((n, depth + 1));
                    }
                }
            }
        }
        if let Some(n) = check_transition(&mut o, &mut cx, &c, Kind::Leave, &[]) {
            if seen.insert(n.clone()) {
                queue.push_back((n, depth + 1));
            }
        }
        if o.violations.len() >= 10 {
            break;
        }
    }
    if o.samples.is_empty() {
        o.samples.push(format!("{} configurations visited, e.g. {:?}", visited, seen.iter().nth(seen.len() / 2)));
    }
    if exhaustive_len1 && !p.miri {
        o.exhaustive_part = Some("breadth-first closure completed: every reachable configuration over ids 1..6 visited with every single change x {simple, enter_joint(auto), enter_joint(explicit)} and leave_joint".into());
    }
    o.stats.add("c12.configurations_visited", visited as u64);
    o.stats.add("c12.distinct_configurations_seen", seen.len() as u64);
    o.stats.add("c12.transitions", o.cases);
    o
}
