//! C18: the in-flight window behaves like a bounded FIFO under resizing.

use std::collections::VecDeque;
use std::panic::{catch_unwind, AssertUnwindSafe};

use raft::Inflights;

use super::{CompOutcome, CompParams};
use crate::rng::{Fp, Rng};

#[derive(Clone, Copy, Debug, PartialEq, Eq)]
pub enum Op {
    Add,
    /// free_to with a position class: 0 below head, 1 head, 2 middle, 3 tail, 4 above tail
    FreeTo(u8),
    FreeFirst,
    Reset,
    SetCap(u8),
    MaybeFree,
}

#[derive(Clone, Debug)]
struct Model {
    q: VecDeque<u64>,
    cap: usize,
    pending: Option<usize>,
    next: u64,
    max_cap: usize,
}

impl Model {
    fn full(&self) -> bool {
        self.q.len() >= self.cap || self.pending.is_some_and(|p| self.q.len() >= p)
    }
    fn drained(&mut self) {
        if self.q.is_empty() {
            if let Some(p) = self.pending.take() {
                self.cap = p;
            }
        }
    }
}

fn logical_contents(ins: &Inflights) -> Vec<u64> {
    let (start, count, cap, _inc, buf) = ins.verif_view();
    let mut out = Vec::with_capacity(count);
    for i in 0..count {
        let mut k = start + i;
        if cap > 0 && k >= cap {
            k -= cap;
        }
        out.push(buf.get(k).cloned().unwrap_or(u64::MAX));
    }
    out
}

pub fn run_sequence(o: &mut CompOutcome, cap0: usize, ops: &[Op], keep_sample: bool) {
    super::guarded(o, "C18", &|| format!("cap0 {} ops {:?}", cap0, ops), &mut |o| run_sequence_inner(o, cap0, ops, keep_sample));
}

fn run_sequence_inner(o: &mut CompOutcome, cap0: usize, ops: &[Op], keep_sample: bool) {
    o.cases += 1;
    let mut ins = Inflights::new(cap0);
    let mut m = Model { q: VecDeque::new(), cap: cap0, pending: None, next: 10, max_cap: cap0 };
    let mut fp = Fp::new();
    fp.u(cap0 as u64);
    for (k, op) in ops.iter().enumerate() {
        o.ops += 1;
        let was_full = m.full();
        let wrapped = {
            let (start, count, cap, _, _) = ins.verif_view();
            cap > 0 && start + count > cap
        };
        fp.u(match op {
            Op::Add => 1,
            Op::FreeTo(c) => 10 + *c as u64,
            Op::FreeFirst => 2,
            Op::Reset => 3,
            Op::SetCap(c) => 30 + ((*c as usize).cmp(&m.cap) as i8 + 1) as u64,
            Op::MaybeFree => 4,
        })
        .u(was_full as u64)
        .u(wrapped as u64)
        .u(m.pending.is_some() as u64);
        match *op {
            Op::Add => {
                let v = m.next;
                m.next += 3;
                let r = catch_unwind(AssertUnwindSafe(|| ins.add(v)));
                if was_full {
                    // adding to a full window is a caller error (documented panic); it must not
                    // corrupt the window, and the generator only does it to check "add succeeds
                    // whenever it is not full" from the other side
                    if r.is_ok() {
                        o.violation(
                            "C18",
                            "add-iff-not-full",
                            "add-accepted-on-full-window",
                            format!("cap0 {} ops {:?}: add succeeded at step {} although the model window is full", cap0, ops, k),
                        );
                        return;
                    }
                    // the documented panic fires before anything is touched: the sequence goes
                    // on and the comparisons below verify that nothing changed
                    o.stats.inc("c18.adds_on_full_window_refused");
                } else {
                    if r.is_err() {
                        o.violation(
                            "C18",
                            "add-iff-not-full",
                            "add-refused-on-non-full-window",
                            format!("cap0 {} ops {:?}: add panicked at step {} although the window is not full ({} of {})", cap0, ops, k, m.q.len(), m.cap),
                        );
                        return;
                    }
                    m.q.push_back(v);
                }
            }
            Op::FreeTo(class) => {
                let to = match class {
                    0 => m.q.front().map(|x| x - 1).unwrap_or(5),
                    1 => m.q.front().cloned().unwrap_or(5),
                    2 => m.q.get(m.q.len() / 2).map(|x| x + 1).unwrap_or(5),
                    3 => m.q.back().cloned().unwrap_or(5),
                    _ => m.q.back().map(|x| x + 100).unwrap_or(1000),
                };
                ins.free_to(to);
                while m.q.front().is_some_and(|x| *x <= to) {
                    m.q.pop_front();
                }
                m.drained();
            }
            Op::FreeFirst => {
                ins.free_first_one();
                m.q.pop_front();
                m.drained();
            }
            Op::Reset => {
                ins.reset();
                m.q.clear();
                if let Some(p) = m.pending.take() {
                    m.cap = p;
                }
            }
            Op::SetCap(c) => {
                let c = c as usize;
                // "Calling it between full() and add() can cause a panic" concerns the caller's
                // own check-then-act; the engine re-evaluates fullness after every operation.
                let r = catch_unwind(AssertUnwindSafe(|| ins.set_cap(c)));
                if r.is_err() {
                    o.violation(
                        "C18",
                        "set-cap-total",
                        "set-cap-panicked",
                        format!("cap0 {} ops {:?}: set_cap({}) panicked at step {}", cap0, ops, c, k),
                    );
                    return;
                }
                if c == m.cap {
                    m.pending = None;
                } else if c > m.cap {
                    m.cap = c;
                    m.pending = None;
                } else if m.q.is_empty() {
                    m.cap = c;
                    m.pending = None;
                } else {
                    m.pending = Some(c);
                }
                m.max_cap = m.max_cap.max(c);
            }
            Op::MaybeFree => {
                ins.maybe_free_buffer();
            }
        }
        // ---- compare every observable
        let count = ins.count();
        let full = ins.full();
        let contents = logical_contents(&ins);
        let want: Vec<u64> = m.q.iter().cloned().collect();
        if count != m.q.len() || contents != want {
            o.violation(
                "C18",
                "fifo-contents",
                "contents-differ-from-fifo-model",
                format!("cap0 {} ops {:?}: after step {} window holds {:?} (count {}), model holds {:?}", cap0, ops, k, contents, count, want),
            );
            return;
        }
        if full != m.full() {
            o.violation(
                "C18",
                "fullness",
                "full-differs-from-model",
                format!("cap0 {} ops {:?}: after step {} full() = {}, model = {} (count {}, cap {}, pending {:?})", cap0, ops, k, full, m.full(), count, m.cap, m.pending),
            );
            return;
        }
        // a reduced capacity is in force at the latest when the window drains
        let (_, _, cap_now, inc_now, _) = ins.verif_view();
        if m.q.is_empty() && (cap_now != m.cap || inc_now.is_some()) && !matches!(op, Op::MaybeFree) {
            o.violation(
                "C18",
                "reduced-cap-at-drain",
                "capacity-not-applied-at-drain",
                format!("cap0 {} ops {:?}: window drained at step {} but capacity is {} (pending {:?}), model {}", cap0, ops, k, cap_now, inc_now, m.cap),
            );
            return;
        }
        if ins.buffer_capacity() > m.max_cap.max(4) * 2 + 8 {
            o.violation(
                "C18",
                "buffer-accounting",
                "buffer-larger-than-any-capacity",
                format!("cap0 {} ops {:?}: buffer capacity {} with largest capacity ever {}", cap0, ops, ins.buffer_capacity(), m.max_cap),
            );
            return;
        }
    }
    o.stats.hit("C18", fp.get());
    if keep_sample && o.samples.len() < 3 {
        o.samples.push(format!("cap0={} ops={:?}", cap0, ops));
    }
}

const ALPHABET: [Op; 14] = [
    Op::Add,
    Op::Add,
    Op::FreeTo(0),
    Op::FreeTo(1),
    Op::FreeTo(2),
    Op::FreeTo(3),
    Op::FreeTo(4),
    Op::FreeFirst,
    Op::Reset,
    Op::SetCap(0),
    Op::SetCap(1),
    Op::SetCap(2),
    Op::SetCap(4),
    Op::MaybeFree,
];

fn enumerate(o: &mut CompOutcome, p: &CompParams, len: usize) {
    // distinct ops only (Add appears twice in ALPHABET for the random generator)
    let ops: Vec<Op> = ALPHABET[1..].to_vec();
    let n = ops.len();
    let total = (n as u64).pow(len as u32);
    let mut seq = vec![Op::Add; len];
    for cap0 in 0..=4usize {
        let mut idx = p.shard;
        while idx < total {
            let mut x = idx;
            for s in seq.iter_mut() {
                *s = ops[(x % n as u64) as usize];
                x /= n as u64;
            }
            // skip sequences that add to a full window before anything else interesting:
            // they end at the first such add anyway
            run_sequence(o, cap0, &seq, idx < 3);
            idx += p.shards;
        }
    }
    o.exhaustive_part = Some(format!(
        "every sequence of length {} over {{add, free_to x5 position classes, free_first_one, reset, set_cap 0/1/2/4, maybe_free_buffer}} from initial capacities 0..=4",
        len
    ));
}

pub fn run(p: &CompParams) -> CompOutcome {
    let mut o = CompOutcome::default();
    let len = if p.miri { 3 } else if p.budget >= 4 { 6 } else { 5 };
    enumerate(&mut o, p, len);
    let mut r = Rng::new(p.seed ^ 0x18 ^ (p.shard << 32));
    let n = if p.miri { 150 } else { 40_000 * p.budget };
    for _ in 0..n {
        let cap0 = r.usize(9);
        let len = 1 + r.usize(if p.miri { 40 } else { 200 });
        let mut ops = Vec::with_capacity(len);
        for _ in 0..len {
            let op = match r.usize(20) {
                0..=8 => Op::Add,
                9..=12 => Op::FreeTo(r.below(5) as u8),
                13..=14 => Op::FreeFirst,
                15 => Op::Reset,
                16..=18 => Op::SetCap(r.below(10) as u8),
                _ => Op::MaybeFree,
            };
            ops.push(op);
        }
        run_sequence(&mut o, cap0, &ops, false);
    }
    o.stats.add("c18.sequences", o.cases);
    o.stats.add("c18.operations", o.ops);
    o
}
