//! C16 part 2: with PreVote and CheckQuorum on everywhere, while a leader and a majority run in
//! lock-step, nothing the remaining nodes do makes the leader step down or any member of the
//! majority change its term.

use std::collections::BTreeSet;

use raft::StateRole;

use super::cluster::*;
use super::gen::Driver;
use super::settle;
use crate::mon::stab::LockWindow;
use crate::rng::Fp;

fn in_set(d: &Driver, set: &BTreeSet<u64>, v: usize) -> bool {
    set.contains(&d.sim.nodes[v].id)
}

/// Runs the pipelines of the majority and delivers all traffic inside it, to quiescence.
fn quiesce_majority(d: &mut Driver, maj: &BTreeSet<u64>) {
    for _ in 0..64 {
        if d.sim.aborted {
            return;
        }
        let mut moved = false;
        for v in 0..d.sim.nodes.len() {
            if !in_set(d, maj, v) {
                continue;
            }
            let mut guard = 0;
            while d.sim.nodes[v].up() && guard < 64 {
                guard += 1;
                let nd = &d.sim.nodes[v];
                let busy = nd.stage != Stage::Idle || nd.raw.as_ref().unwrap().has_ready();
                if busy {
                    if d.sim.exec(&Action::Pipe(v)) {
                        moved = true;
                        continue;
                    }
                    break;
                }
                if !nd.async_recs.is_empty() {
                    if d.sim.exec(&Action::Persist(v, false)) {
                        moved = true;
                    }
                    continue;
                }
                if !nd.apply_q.is_empty() {
                    if d.sim.exec(&Action::Apply(v, 16)) {
                        moved = true;
                    }
                    continue;
                }
                break;
            }
        }
        // deliver majority-internal traffic, oldest first
        d.sim.net.flights.sort_by_key(|f| f.id);
        let mut i = 0;
        while i < d.sim.net.flights.len() {
            if d.sim.aborted {
                return;
            }
            let (from, to) = (d.sim.net.flights[i].m.from, d.sim.net.flights[i].m.to);
            if maj.contains(&from) && maj.contains(&to) {
                let old = d.sim.net.fifo;
                d.sim.net.fifo = true;
                let ok = d.sim.exec(&Action::Deliver(i));
                d.sim.net.fifo = old;
                if ok {
                    moved = true;
                    continue;
                }
            }
            i += 1;
        }
        if !moved {
            return;
        }
    }
}

/// One adversarial action of (or about) the minority.
fn minority_action(d: &mut Driver, maj: &BTreeSet<u64>, minority: &[usize]) {
    if minority.is_empty() {
        return;
    }
    let et = d.knobs.election_tick;
    let v = minority[d.rng.usize(minority.len())];
    match d.rng.usize(20) {
        0..=4 => {
            // tick burst incl. the lease boundaries
            let k = *d.rng.pick(&[1usize, 1, 2, et - 1, et, 2 * et - 1, 2 * et]);
            for _ in 0..k {
                if !d.sim.exec(&Action::Tick(v)) {
                    break;
                }
            }
        }
        5..=8 => {
            d.sim.exec(&Action::Pipe(v));
            d.sim.exec(&Action::Pipe(v));
            d.sim.exec(&Action::Persist(v, false));
            d.sim.exec(&Action::Apply(v, 8));
        }
        9..=13 => {
            // deliver / duplicate / drop a message that involves the minority
            let idxs: Vec<usize> = (0..d.sim.net.flights.len())
                .filter(|&i| {
                    let f = &d.sim.net.flights[i];
                    !(maj.contains(&f.m.from) && maj.contains(&f.m.to))
                })
                .collect();
            if idxs.is_empty() {
                return;
            }
            let i = idxs[d.rng.usize(idxs.len())];
            let to_minority = !maj.contains(&d.sim.net.flights[i].m.to);
            match d.rng.usize(10) {
                0..=5 => {
                    d.sim.exec(&Action::Deliver(i));
                }
                6..=7 => {
                    d.sim.exec(&Action::Dup(i));
                }
                _ => {
                    // traffic toward the minority may be lost at will
                    if to_minority || d.rng.chance(1, 2) {
                        d.sim.exec(&Action::Drop(i));
                    }
                }
            }
        }
        14 => {
            if d.sim.nodes[v].up() {
                d.sim.exec(&Action::Crash(v));
                d.sim.mon.stats.inc("c16.lockstep_minority_crashes");
            } else {
                d.sim.exec(&Action::Restart(v));
                d.sim.mon.stats.inc("c16.lockstep_minority_restarts");
            }
        }
        15 => {
            d.sim.exec(&Action::Restart(v));
        }
        16 => {
            if d.sim.exec(&Action::Campaign(v)) {
                d.sim.mon.stats.inc("c16.lockstep_minority_campaigns");
            }
        }
        17 => {
            d.sim.exec(&Action::Propose(v, 8));
        }
        18 => {
            d.sim.exec(&Action::ReadIndex(v));
        }
        _ => {
            // isolate / rejoin: drop everything currently addressed to this node
            let id = d.sim.nodes[v].id;
            d.sim.net.flights.retain(|f| f.m.to != id);
        }
    }
}

pub fn run_windows(d: &mut Driver, windows: usize) {
    let et = d.knobs.election_tick;
    for _ in 0..windows {
        if d.sim.aborted {
            return;
        }
        // a little chaos first, then a settled, drained state with all terms equal
        let k = 50 + d.rng.usize(200);
        d.chaos(k);
        if d.sim.aborted {
            return;
        }
        settle::settle(d);
        if d.sim.aborted {
            return;
        }
        let conv = match settle::converged(d) {
            Some(c) => c,
            None => continue,
        };
        let l = conv.leader;
        let lterm = d.sim.nodes[l].raw.as_ref().unwrap().raft.term;
        let same_term = (0..d.sim.nodes.len()).all(|v| {
            d.sim.nodes[v]
                .raw
                .as_ref()
                .is_some_and(|r| r.raft.term == lterm)
        });
        if !same_term {
            d.sim.mon.stats.inc("c16.lockstep_window_precondition_unmet");
            continue;
        }
        d.sim.net.flights.clear();
        // choose a majority containing the leader
        let conf = d.sim.nodes[l].conf.clone();
        // (a majority of each half when the configuration is joint)
        let voters: Vec<u64> = conf.all_voters().into_iter().collect();
        let lid = d.sim.nodes[l].id;
        let mut maj: BTreeSet<u64> = BTreeSet::new();
        maj.insert(lid);
        let mut others: Vec<u64> = voters.iter().cloned().filter(|x| *x != lid).collect();
        while !conf.is_quorum(&maj) && !others.is_empty() {
            let i = d.rng.usize(others.len());
            maj.insert(others.swap_remove(i));
        }
        if conf.is_joint() {
            d.sim.mon.stats.inc("c16.lockstep_windows_joint_conf");
        }
        // sometimes the majority is larger than minimal; learners may be on either side
        if !others.is_empty() && d.rng.chance(1, 4) {
            let i = d.rng.usize(others.len());
            maj.insert(others.swap_remove(i));
        }
        for lr in conf.learners.iter() {
            if d.rng.chance(1, 2) {
                maj.insert(*lr);
            }
        }
        let minority: Vec<usize> = (0..d.sim.nodes.len())
            .filter(|&v| !maj.contains(&d.sim.nodes[v].id))
            .collect();
        d.sim.mon.lockstep = Some(LockWindow {
            leader: lid,
            term: lterm,
            majority: maj.clone(),
            rounds: 0,
        });
        d.sim.mon.stats.inc("c16.lockstep_windows");
        let mut f = Fp::new();
        f.u(voters.len() as u64)
            .u(maj.len() as u64)
            .u(minority.len() as u64)
            .u(conf.learners.len() as u64)
            .u(et as u64)
            .u(d.knobs.heartbeat_tick as u64);
        d.sim.mon.stats.hit("C16", f.get());
        let rounds = (30 + d.rng.usize(20)) * et;
        for _ in 0..rounds {
            if d.sim.aborted {
                break;
            }
            // the majority: one tick each, then all internal traffic
            for v in 0..d.sim.nodes.len() {
                if in_set(d, &maj, v) && d.sim.nodes[v].idle() {
                    d.sim.exec(&Action::Tick(v));
                }
            }
            quiesce_majority(d, &maj);
            // clients keep the leader busy now and then
            if d.rng.chance(1, 6) && d.sim.nodes[l].idle() {
                d.sim.exec(&Action::Propose(l, 8));
            }
            // the minority does whatever it likes
            let k = d.rng.usize(6);
            for _ in 0..k {
                minority_action(d, &maj, &minority);
                if d.sim.aborted {
                    break;
                }
            }
            // traffic from the minority may reach majority members at any point
            quiesce_majority(d, &maj);
            d.sim.mon.stats.inc("c16.lockstep_rounds");
        }
        d.sim.mon.lockstep = None;
        if d.sim.aborted {
            return;
        }
        // bring the minority back for the next window
        for &v in &minority {
            if !d.sim.nodes[v].up() {
                d.sim.exec(&Action::Restart(v));
            }
        }
    }
}
