//! Shared value types of the cluster simulator: configuration views, node views taken before
//! and after every library call, operations, message release classes.

use std::collections::BTreeSet;
use std::rc::Rc;

use raft::eraftpb::{ConfChangeV2, ConfState, Entry, EntryType, Message, MessageType};
use raft::{RawNode, StateRole};

use super::storage::SimStorage;
use crate::rng::Fp;

pub type Raw = RawNode<SimStorage>;

#[derive(Clone, Debug, Default, PartialEq, Eq, PartialOrd, Ord)]
pub struct Conf {
    pub voters: BTreeSet<u64>,
    pub outgoing: BTreeSet<u64>,
    pub learners: BTreeSet<u64>,
    pub learners_next: BTreeSet<u64>,
    pub auto_leave: bool,
}

impl Conf {
    pub fn from_cs(cs: &ConfState) -> Conf {
        Conf {
            voters: cs.get_voters().iter().cloned().collect(),
            outgoing: cs.get_voters_outgoing().iter().cloned().collect(),
            learners: cs.get_learners().iter().cloned().collect(),
            learners_next: cs.get_learners_next().iter().cloned().collect(),
            auto_leave: cs.auto_leave,
        }
    }
    pub fn to_cs(&self) -> ConfState {
        let mut cs = ConfState::default();
        cs.set_voters(self.voters.iter().cloned().collect());
        cs.set_voters_outgoing(self.outgoing.iter().cloned().collect());
        cs.set_learners(self.learners.iter().cloned().collect());
        cs.set_learners_next(self.learners_next.iter().cloned().collect());
        cs.auto_leave = self.auto_leave;
        cs
    }
    pub fn is_joint(&self) -> bool {
        !self.outgoing.is_empty()
    }
    pub fn is_voter(&self, id: u64) -> bool {
        self.voters.contains(&id) || self.outgoing.contains(&id)
    }
    pub fn members(&self) -> BTreeSet<u64> {
        let mut s = self.voters.clone();
        s.extend(self.outgoing.iter().cloned());
        s.extend(self.learners.iter().cloned());
        s.extend(self.learners_next.iter().cloned());
        s
    }
    pub fn all_voters(&self) -> BTreeSet<u64> {
        let mut s = self.voters.clone();
        s.extend(self.outgoing.iter().cloned());
        s
    }
    /// Independent (brute-force) joint-majority test used by the oracles.
    pub fn is_quorum(&self, set: &BTreeSet<u64>) -> bool {
        fn maj(half: &BTreeSet<u64>, set: &BTreeSet<u64>) -> bool {
            if half.is_empty() {
                return true;
            }
            let n = half.iter().filter(|id| set.contains(id)).count();
            n >= half.len() / 2 + 1
        }
        maj(&self.voters, set) && maj(&self.outgoing, set)
    }
    pub fn fp(&self, f: &mut Fp) {
        for s in [&self.voters, &self.outgoing, &self.learners, &self.learners_next] {
            f.u(s.len() as u64);
            for x in s {
                f.u(*x);
            }
        }
        f.u(self.auto_leave as u64);
    }
}

pub fn conf_of(raw: &Raw) -> Conf {
    Conf::from_cs(&raw.raft.prs().conf().to_conf_state())
}

/// Snapshot of the observable state of one node, taken before and after every library call.
#[derive(Clone, Debug)]
pub struct View {
    pub term: u64,
    pub vote: u64,
    pub leader_id: u64,
    pub state: StateRole,
    pub committed: u64,
    pub applied: u64,
    pub persisted: u64,
    pub last_index: u64,
    pub last_term: u64,
    pub first_index: u64,
    pub unstable_offset: u64,
    pub unstable_len: usize,
    pub unstable_snap: Option<(u64, u64)>,
    pub lead_transferee: Option<u64>,
    pub pending_conf_index: u64,
    pub election_elapsed: usize,
    pub pending_request_snapshot: u64,
    pub promotable: bool,
    pub uncommitted_size: usize,
    pub msgs_len: usize,
    pub apply_limit: u64,
    pub read_states_len: usize,
    pub pending_reads: usize,
    /// Entry-carrying MsgAppend queued in `raft.msgs` per destination id (4 bits each, ids < 16,
    /// saturating): also sees an entry-less append turned into an entry-carrying one by batching.
    pub queued_appends: u64,
    pub conf: Rc<Conf>,
}

pub fn view_of(raw: &Raw, conf: &Rc<Conf>) -> View {
    let r = &raw.raft;
    let log = &r.raft_log;
    let last_index = log.last_index();
    let mut queued_appends = 0u64;
    for m in r.msgs.iter() {
        if m.get_msg_type() == MessageType::MsgAppend && !m.entries.is_empty() && m.to < 16 {
            let sh = m.to * 4;
            let cur = (queued_appends >> sh) & 0xf;
            if cur < 15 {
                queued_appends += 1 << sh;
            }
        }
    }
    View {
        term: r.term,
        vote: r.vote,
        leader_id: r.leader_id,
        state: r.state,
        committed: log.committed,
        applied: log.applied,
        persisted: log.persisted,
        last_index,
        last_term: log.term(last_index).unwrap_or(0),
        first_index: log.first_index(),
        unstable_offset: log.unstable.offset,
        unstable_len: log.unstable.entries.len(),
        unstable_snap: log
            .unstable
            .snapshot
            .as_ref()
            .map(|s| (s.get_metadata().index, s.get_metadata().term)),
        lead_transferee: r.lead_transferee,
        pending_conf_index: r.pending_conf_index,
        election_elapsed: r.election_elapsed,
        pending_request_snapshot: r.pending_request_snapshot,
        promotable: r.promotable(),
        uncommitted_size: r.uncommitted_size(),
        msgs_len: r.msgs.len(),
        apply_limit: log.max_apply_unpersisted_log_limit,
        read_states_len: r.read_states.len(),
        pending_reads: r.read_only.read_index_queue.len(),
        queued_appends,
        conf: conf.clone(),
    }
}

impl View {
    pub fn is_leader(&self) -> bool {
        self.state == StateRole::Leader
    }
    /// Cheap local abstract-state fingerprint.
    pub fn fp(&self, f: &mut Fp) {
        f.u(self.state as u64)
            .u(self.term)
            .u((self.vote != 0) as u64)
            .u((self.leader_id != 0) as u64)
            .u(self.last_index - self.committed.min(self.last_index))
            .u(self.committed - self.applied.min(self.committed))
            .u(self.last_index - self.persisted.min(self.last_index))
            .u(self.last_term)
            .u(self.unstable_len as u64)
            .u(self.unstable_snap.is_some() as u64)
            .u(self.lead_transferee.is_some() as u64)
            .u((self.pending_request_snapshot != 0) as u64);
        self.conf.fp(f);
    }
}

/// How a message was handed to the application, which decides when it may be sent.
#[derive(Clone, Copy, Debug, PartialEq, Eq)]
pub enum MsgClass {
    /// `Ready::messages()`: may be sent at once.
    Immediate,
    /// `Ready::persisted_messages()`: only after Ready n (and all before it) is persisted.
    Persisted,
    /// `LightReady::messages()` returned by advance/advance_append.
    Light,
}

/// A library call made by the simulated application.
#[derive(Clone, Debug)]
pub enum Op {
    New,
    Tick,
    Step(Box<Message>),
    Propose(Vec<u8>),
    ProposeConf(Box<ConfChangeV2>, bool),
    ReadIndex(Vec<u8>),
    Campaign,
    Transfer(u64),
    RequestSnapshot,
    ReportUnreachable(u64),
    ReportSnapshot(u64, bool),
    Ready,
    Advance,
    AdvanceAppend,
    AdvanceAppendAsync,
    OnPersistReady(u64),
    AdvanceApplyTo(u64),
    ApplyConfChange(Box<ConfChangeV2>),
    OnEntriesFetched,
    Knob(&'static str),
    Ping,
}

impl Op {
    pub fn kind(&self) -> u64 {
        match self {
            Op::New => 1,
            Op::Tick => 2,
            Op::Step(m) => 100 + m.get_msg_type() as u64,
            Op::Propose(_) => 3,
            Op::ProposeConf(..) => 4,
            Op::ReadIndex(_) => 5,
            Op::Campaign => 6,
            Op::Transfer(_) => 7,
            Op::RequestSnapshot => 8,
            Op::ReportUnreachable(_) => 9,
            Op::ReportSnapshot(..) => 10,
            Op::Ready => 11,
            Op::Advance => 12,
            Op::AdvanceAppend => 13,
            Op::AdvanceAppendAsync => 14,
            Op::OnPersistReady(_) => 15,
            Op::AdvanceApplyTo(_) => 16,
            Op::ApplyConfChange(_) => 17,
            Op::OnEntriesFetched => 18,
            Op::Knob(_) => 19,
            Op::Ping => 20,
        }
    }
    pub fn short(&self) -> String {
        match self {
            Op::Step(m) => format!(
                "step({:?} {}->{} t{} i{} lt{} c{} n{}{}{})",
                m.get_msg_type(),
                m.from,
                m.to,
                m.term,
                m.index,
                m.log_term,
                m.commit,
                m.entries.len(),
                if m.reject { " rej" } else { "" },
                if m.has_snapshot() && m.get_snapshot().get_metadata().index > 0 {
                    format!(" snap{}", m.get_snapshot().get_metadata().index)
                } else if !m.get_context().is_empty() {
                    format!(" ctx={}", String::from_utf8_lossy(m.get_context()))
                } else {
                    String::new()
                }
            ),
            Op::Propose(d) => format!("propose({}B)", d.len()),
            Op::ProposeConf(cc, v1) => format!(
                "propose_conf({} {:?} {})",
                if *v1 { "v1" } else { "v2" },
                cc.get_transition(),
                raft_proto_stringify(cc)
            ),
            Op::ApplyConfChange(cc) => format!(
                "apply_conf_change({:?} {})",
                cc.get_transition(),
                raft_proto_stringify(cc)
            ),
            Op::ReadIndex(_) => "read_index".into(),
            other => format!("{:?}", other).to_lowercase(),
        }
    }
}

pub fn raft_proto_stringify(cc: &ConfChangeV2) -> String {
    let mut s = String::new();
    for (i, c) in cc.get_changes().iter().enumerate() {
        if i > 0 {
            s.push(' ');
        }
        s.push(match c.get_change_type() {
            raft::eraftpb::ConfChangeType::AddNode => 'v',
            raft::eraftpb::ConfChangeType::AddLearnerNode => 'l',
            raft::eraftpb::ConfChangeType::RemoveNode => 'r',
        });
        s.push_str(&c.node_id.to_string());
    }
    if s.is_empty() {
        s.push_str("leave");
    }
    s
}

/// Result of a library call, reduced to what monitors need.
#[derive(Clone, Debug, PartialEq)]
pub enum Res {
    Unit,
    Ok,
    Err(String),
    Bool(bool),
}

pub fn entry_hash(e: &Entry) -> u64 {
    let mut f = Fp::new();
    f.u(e.get_entry_type() as u64);
    f.bytes(e.get_data());
    f.bytes(e.get_context());
    f.get()
}

pub fn is_conf_entry(e: &Entry) -> bool {
    matches!(
        e.get_entry_type(),
        EntryType::EntryConfChange | EntryType::EntryConfChangeV2
    )
}

pub fn sm_fold(sm: u64, e: &Entry) -> u64 {
    let mut f = Fp(sm ^ 0x5bd1e995);
    f.u(e.index).u(e.term).u(entry_hash(e));
    f.get()
}

pub fn is_vote_req(t: MessageType) -> bool {
    matches!(
        t,
        MessageType::MsgRequestVote | MessageType::MsgRequestPreVote
    )
}
