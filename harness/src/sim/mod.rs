pub mod cluster;
pub mod gen;
pub mod lockstep;
pub mod settle;
pub mod storage;
pub mod types;
