//! `SimStorage`: a conforming `raft::Storage` with two images per node:
//! `vol` (what the library reads back; contains every write the application has made) and
//! `dur` (what survives a crash; updated only by an explicit fsync = copy vol -> dur).
//! It also carries the application's own durable state (applied index, state-machine
//! digest, configuration at the applied index) and the snapshot source (checkpoint).

use std::cell::RefCell;
use std::rc::Rc;

use raft::eraftpb::{ConfState, Entry, HardState, Snapshot};
use raft::{Error, GetEntriesContext, RaftState, Result as RResult, Storage, StorageError};

#[derive(Clone, Debug, Default, PartialEq)]
pub struct Checkpoint {
    pub index: u64,
    pub term: u64,
    pub sm: u64,
    pub conf: ConfState,
}

#[derive(Clone, Debug, Default)]
pub struct Image {
    /// (index, term) retained boundary: entries start at `snap_index + 1`.
    pub snap_index: u64,
    pub snap_term: u64,
    pub entries: Vec<Entry>,
    pub hs: HardState,
    /// Application state.
    pub applied: u64,
    pub sm: u64,
    pub conf: ConfState,
    /// Snapshot source (what `Storage::snapshot` serves).
    pub ck: Option<Checkpoint>,
}

impl Image {
    pub fn first_index(&self) -> u64 {
        self.snap_index + 1
    }
    pub fn last_index(&self) -> u64 {
        self.snap_index + self.entries.len() as u64
    }
    /// Term at idx if retained (boundary included).
    pub fn term(&self, idx: u64) -> Option<u64> {
        if idx == self.snap_index {
            return Some(self.snap_term);
        }
        if idx < self.snap_index || idx > self.last_index() {
            return None;
        }
        Some(self.entries[(idx - self.snap_index - 1) as usize].term)
    }
    pub fn entry(&self, idx: u64) -> Option<&Entry> {
        if idx <= self.snap_index || idx > self.last_index() {
            return None;
        }
        Some(&self.entries[(idx - self.snap_index - 1) as usize])
    }
    /// Does this image hold (idx, term), either as an entry / boundary or covered by its
    /// snapshot point (idx <= snap_index means the state up to idx is incorporated).
    pub fn holds(&self, idx: u64, term: u64) -> bool {
        if idx <= self.snap_index {
            return true;
        }
        self.term(idx) == Some(term)
    }
}

#[derive(Default)]
pub struct StoreInner {
    pub vol: Image,
    pub dur: Image,
    /// Number of upcoming `snapshot()` calls that answer SnapshotTemporarilyUnavailable.
    pub snap_unavailable: u32,
    /// Number of upcoming async-capable `entries()` calls that answer LogTemporarilyUnavailable.
    pub fetch_unavailable: u32,
    pub pending_fetch: Vec<GetEntriesContext>,
    /// Counters (observability for evidence).
    pub n_entries_calls: u64,
    pub n_snapshot_calls: u64,
    pub n_snapshot_unavail: u64,
    pub n_fetch_unavail: u64,
    /// Set when the library calls the storage outside the trait's documented preconditions.
    pub contract_breach: Option<String>,
    /// Lowest log index written to `vol` since the last fsync (u64::MAX = none).
    pub dirty_from: u64,
}

#[derive(Clone, Default)]
pub struct SimStorage(pub Rc<RefCell<StoreInner>>);

pub fn limit_entries(ents: &mut Vec<Entry>, max: Option<u64>) {
    raft::util::limit_size(ents, max);
}

impl SimStorage {
    pub fn new(img: Image) -> SimStorage {
        let inner = StoreInner {
            vol: img.clone(),
            dur: img,
            dirty_from: u64::MAX,
            ..Default::default()
        };
        SimStorage(Rc::new(RefCell::new(inner)))
    }

    // ---- application-side mutations (volatile image) ----

    /// Truncate-and-append, as the application must do with `Ready::entries`.
    pub fn append(&self, ents: &[Entry]) -> Result<(), String> {
        if ents.is_empty() {
            return Ok(());
        }
        let mut g = self.0.borrow_mut();
        let g = &mut *g;
        let v = &mut g.vol;
        let first = ents[0].index;
        if first < v.first_index() {
            return Err(format!(
                "entries to persist start at {} below first_index {}",
                first,
                v.first_index()
            ));
        }
        if first > v.last_index() + 1 {
            return Err(format!(
                "entries to persist start at {} leaving a gap after last_index {}",
                first,
                v.last_index()
            ));
        }
        let keep = (first - v.first_index()) as usize;
        v.entries.truncate(keep);
        v.entries.extend_from_slice(ents);
        if first < g.dirty_from {
            g.dirty_from = first;
        }
        Ok(())
    }

    pub fn set_hs(&self, hs: &HardState) {
        self.0.borrow_mut().vol.hs = hs.clone();
    }

    pub fn set_commit(&self, c: u64) {
        let mut g = self.0.borrow_mut();
        if c > g.vol.hs.commit {
            g.vol.hs.commit = c;
        }
    }

    /// Install a raft snapshot: log is replaced by the snapshot point; application state
    /// becomes the snapshot's.
    pub fn install_snapshot(&self, snap: &Snapshot, sm: u64) {
        let mut g = self.0.borrow_mut();
        let g = &mut *g;
        let meta = snap.get_metadata();
        let v = &mut g.vol;
        v.snap_index = meta.index;
        v.snap_term = meta.term;
        v.entries.clear();
        g.dirty_from = 0;
        let v = &mut g.vol;
        v.applied = meta.index;
        v.sm = sm;
        v.conf = meta.get_conf_state().clone();
        v.ck = Some(Checkpoint {
            index: meta.index,
            term: meta.term,
            sm,
            conf: meta.get_conf_state().clone(),
        });
    }

    /// Record the current application state as the snapshot source.
    pub fn checkpoint(&self) -> bool {
        let mut g = self.0.borrow_mut();
        let v = &mut g.vol;
        let idx = v.applied;
        let term = match v.term(idx) {
            Some(t) => t,
            None => return false,
        };
        if idx == 0 {
            return false;
        }
        v.ck = Some(Checkpoint {
            index: idx,
            term,
            sm: v.sm,
            conf: v.conf.clone(),
        });
        true
    }

    /// Discard entries up to and including `to` (must be <= checkpoint index and retained).
    pub fn compact(&self, to: u64) -> bool {
        let mut g = self.0.borrow_mut();
        let v = &mut g.vol;
        let ck = match &v.ck {
            Some(c) => c.index,
            None => return false,
        };
        if to <= v.snap_index || to > ck || to > v.last_index() || to > v.applied {
            return false;
        }
        let term = v.term(to).unwrap();
        let n = (to - v.snap_index) as usize;
        v.entries.drain(..n);
        v.snap_index = to;
        v.snap_term = term;
        true
    }

    /// Copies vol -> dur. Returns the lowest log index that became durable anew
    /// (u64::MAX if the log part did not change).
    pub fn fsync(&self) -> u64 {
        let mut g = self.0.borrow_mut();
        let g = &mut *g;
        let from = g.dirty_from;
        g.dirty_from = u64::MAX;
        if g.dur.snap_index == g.vol.snap_index && g.dur.snap_term == g.vol.snap_term {
            if from != u64::MAX {
                let first = g.vol.first_index();
                let keep = ((from.max(first) - first) as usize).min(g.dur.entries.len());
                g.dur.entries.truncate(keep);
                g.dur.entries.extend_from_slice(&g.vol.entries[keep..]);
            }
            debug_assert_eq!(g.dur.entries.len(), g.vol.entries.len());
            g.dur.hs = g.vol.hs.clone();
            g.dur.applied = g.vol.applied;
            g.dur.sm = g.vol.sm;
            if g.dur.conf != g.vol.conf {
                g.dur.conf = g.vol.conf.clone();
            }
            if g.dur.ck != g.vol.ck {
                g.dur.ck = g.vol.ck.clone();
            }
            from
        } else {
            g.dur = g.vol.clone();
            g.vol.first_index()
        }
    }

    /// Crash: everything volatile is lost.
    pub fn crash(&self) {
        let mut g = self.0.borrow_mut();
        g.vol = g.dur.clone();
        g.dirty_from = u64::MAX;
        g.pending_fetch.clear();
        g.snap_unavailable = 0;
        g.fetch_unavailable = 0;
    }

    pub fn with<R>(&self, f: impl FnOnce(&StoreInner) -> R) -> R {
        f(&self.0.borrow())
    }
    pub fn with_mut<R>(&self, f: impl FnOnce(&mut StoreInner) -> R) -> R {
        f(&mut self.0.borrow_mut())
    }
}

impl Storage for SimStorage {
    fn initial_state(&self) -> RResult<RaftState> {
        let g = self.0.borrow();
        Ok(RaftState::new(g.vol.hs.clone(), g.vol.conf.clone()))
    }

    fn entries(
        &self,
        low: u64,
        high: u64,
        max_size: impl Into<Option<u64>>,
        context: GetEntriesContext,
    ) -> RResult<Vec<Entry>> {
        let max_size = max_size.into();
        let mut g = self.0.borrow_mut();
        g.n_entries_calls += 1;
        if low < g.vol.first_index() {
            return Err(Error::Store(StorageError::Compacted));
        }
        if high > g.vol.last_index() + 1 || low > high {
            // Documented precondition of the trait ("Panics if high is higher than last+1").
            // Record it so the monitor can attribute it, then answer like MemStorage does.
            g.contract_breach = Some(format!(
                "Storage::entries({}, {}) outside [first {}, last+1 {}]",
                low,
                high,
                g.vol.first_index(),
                g.vol.last_index() + 1
            ));
            panic!(
                "SimStorage: entries({}, {}) out of bound (last {})",
                low,
                high,
                g.vol.last_index()
            );
        }
        if g.fetch_unavailable > 0 && context.can_async() {
            g.fetch_unavailable -= 1;
            g.n_fetch_unavail += 1;
            g.pending_fetch.push(context);
            return Err(Error::Store(StorageError::LogTemporarilyUnavailable));
        }
        let off = g.vol.first_index();
        let mut ents = g.vol.entries[(low - off) as usize..(high - off) as usize].to_vec();
        limit_entries(&mut ents, max_size);
        Ok(ents)
    }

    fn term(&self, idx: u64) -> RResult<u64> {
        let g = self.0.borrow();
        if idx == g.vol.snap_index {
            return Ok(g.vol.snap_term);
        }
        if idx < g.vol.snap_index {
            return Err(Error::Store(StorageError::Compacted));
        }
        if idx > g.vol.last_index() {
            return Err(Error::Store(StorageError::Unavailable));
        }
        Ok(g.vol.entries[(idx - g.vol.snap_index - 1) as usize].term)
    }

    fn first_index(&self) -> RResult<u64> {
        Ok(self.0.borrow().vol.first_index())
    }

    fn last_index(&self) -> RResult<u64> {
        Ok(self.0.borrow().vol.last_index())
    }

    fn snapshot(&self, request_index: u64, _to: u64) -> RResult<Snapshot> {
        let mut g = self.0.borrow_mut();
        g.n_snapshot_calls += 1;
        if g.snap_unavailable > 0 {
            g.snap_unavailable -= 1;
            g.n_snapshot_unavail += 1;
            return Err(Error::Store(StorageError::SnapshotTemporarilyUnavailable));
        }
        match &g.vol.ck {
            Some(ck) if ck.index >= request_index && ck.index >= g.vol.snap_index => {
                Ok(make_snapshot(ck))
            }
            _ => {
                g.n_snapshot_unavail += 1;
                Err(Error::Store(StorageError::SnapshotTemporarilyUnavailable))
            }
        }
    }
}

pub fn encode_snap_data(index: u64, sm: u64) -> Vec<u8> {
    let mut v = Vec::with_capacity(16);
    v.extend_from_slice(&index.to_le_bytes());
    v.extend_from_slice(&sm.to_le_bytes());
    v
}

pub fn decode_snap_data(d: &[u8]) -> Option<(u64, u64)> {
    if d.len() != 16 {
        return None;
    }
    Some((
        u64::from_le_bytes(d[0..8].try_into().unwrap()),
        u64::from_le_bytes(d[8..16].try_into().unwrap()),
    ))
}

pub fn make_snapshot(ck: &Checkpoint) -> Snapshot {
    let mut s = Snapshot::default();
    s.set_data(encode_snap_data(ck.index, ck.sm).into());
    let m = s.mut_metadata();
    m.index = ck.index;
    m.term = ck.term;
    m.set_conf_state(ck.conf.clone());
    s
}
