//! Fair, fault-free suffixes (C10 bounded progress, C17(e) transfer completion, C16 lock-step).

use std::collections::BTreeSet;

use raft::StateRole;

use super::cluster::*;
use super::gen::Driver;
use crate::rng::Fp;

/// Soft / hard bounds in election timeouts.
pub const B_SOFT: usize = 60;
pub const B_HARD: usize = 300;

fn running(d: &Driver) -> Vec<usize> {
    (0..d.sim.nodes.len())
        .filter(|&v| d.sim.nodes[v].up() && !d.sim.nodes[v].stopped)
        .collect()
}

/// Stops faults: heal, restart, clear injected unavailability, undo throttles, shut down
/// nodes that have applied their own removal.
pub fn stop_faults(d: &mut Driver) {
    d.sim.exec(&Action::Heal);
    let n = d.sim.nodes.len();
    for v in 0..n {
        d.sim.nodes[v].crash_mid_send = false;
        d.sim.nodes[v].apply_hold = false;
        d.sim.nodes[v].store.with_mut(|s| {
            s.snap_unavailable = 0;
            s.fetch_unavailable = 0;
        });
        if !d.sim.nodes[v].up() && !d.sim.nodes[v].stopped {
            d.sim.exec(&Action::Restart(v));
        }
    }
    stop_removed(d);
    // finish whatever Ready round is in progress so that every node can be reconfigured
    d.drain(4);
    undo_throttles(d);
}

/// Undo run-time window throttles (`adjust_max_inflight_msgs(_, 0)` disables a progress; that is
/// an operator action and belongs to the faults that stop).
pub fn undo_throttles(d: &mut Driver) {
    let n = d.sim.nodes.len();
    for v in 0..n {
        if !d.sim.nodes[v].idle() {
            continue;
        }
        // group commit switched on at run time in an execution that is not a group-commit one:
        // the operator switches it off again (progress under group commit needs two groups)
        if !d.knobs.group_commit && d.sim.nodes[v].raw.as_ref().is_some_and(|r| r.raft.prs().group_commit()) {
            d.sim.call(
                v,
                crate::sim::types::Op::Knob("enable_group_commit"),
                |raw| raw.raft.enable_group_commit(false),
                |_| crate::sim::types::Res::Unit,
            );
            if !d.sim.nodes[v].idle() {
                continue;
            }
        }
        let cap = d.sim.nodes[v].cfg.max_inflight_msgs;
        let ids: Vec<u64> = d.universe.clone();
        for t in ids {
            let cur = d.sim.nodes[v]
                .raw
                .as_ref()
                .and_then(|r| r.raft.prs().get(t).map(|p| (p.ins.verif_view().2, p.ins.verif_view().3)));
            if let Some((c, inc)) = cur {
                if c != cap || inc.is_some() {
                    d.sim.mon.on_cap_adjust(v, t, cap);
                    d.sim.call(
                        v,
                        crate::sim::types::Op::Knob("adjust_max_inflight"),
                        |raw| raw.raft.adjust_max_inflight_msgs(t, cap),
                        |_| crate::sim::types::Res::Unit,
                    );
                }
            }
        }
    }
}

/// A node that has applied its own removal is shut down by the application.
pub fn stop_removed(d: &mut Driver) {
    let n = d.sim.nodes.len();
    for v in 0..n {
        if !d.sim.nodes[v].up() {
            continue;
        }
        let id = d.sim.nodes[v].id;
        let member = d.sim.nodes[v].conf.members().contains(&id);
        let initialised = !d.sim.nodes[v].conf.members().is_empty();
        if initialised && !member && d.sim.nodes[v].stage == Stage::Idle {
            d.sim.log(format!("n{} STOPPED (applied own removal)", id));
            d.sim.kill(v);
            d.sim.nodes[v].stopped = true;
            d.sim.mon.stats.inc("c10.removed_nodes_stopped");
        }
    }
}

#[derive(Debug)]
pub struct Conv {
    pub leader: usize,
    pub members: Vec<usize>,
}

/// The convergence predicate of C10.
pub fn converged(d: &Driver) -> Option<Conv> {
    let run = running(d);
    let mut leaders = Vec::new();
    let mut max_term = 0;
    for &v in &run {
        let r = d.sim.nodes[v].raw.as_ref().unwrap();
        max_term = max_term.max(r.raft.term);
        if r.raft.state == StateRole::Leader {
            leaders.push(v);
        }
    }
    if leaders.is_empty() {
        return None;
    }
    // the leader of the highest term; any other node that believes it leads must be a node that
    // leader's configuration no longer lists (removed while cut off: it can never learn of its
    // removal from the log and, without check-quorum, leads nobody forever - its application
    // would be told from outside); a second leader among the members means "not converged"
    let l = *leaders
        .iter()
        .max_by_key(|&&v| d.sim.nodes[v].raw.as_ref().unwrap().raft.term)
        .unwrap();
    let lr = d.sim.nodes[l].raw.as_ref().unwrap();
    let conf = d.sim.nodes[l].conf.clone();
    let mem = conf.members();
    for &o in &leaders {
        if o != l && mem.contains(&d.sim.nodes[o].id) {
            return None;
        }
    }
    // the leader has the highest term among the running members of its configuration
    // (a removed node that never learnt of its removal may campaign forever at higher terms)
    let _ = max_term;
    let max_member_term = run
        .iter()
        .filter(|&&v| mem.contains(&d.sim.nodes[v].id))
        .map(|&v| d.sim.nodes[v].raw.as_ref().unwrap().raft.term)
        .max()
        .unwrap_or(0);
    if lr.raft.term != max_member_term {
        return None;
    }
    let (li, lt, lc) = (
        lr.raft.raft_log.last_index(),
        lr.raft.raft_log.last_term(),
        lr.raft.raft_log.committed,
    );
    let mut members = Vec::new();
    for &v in &run {
        if !mem.contains(&d.sim.nodes[v].id) {
            continue;
        }
        let r = d.sim.nodes[v].raw.as_ref().unwrap();
        let log = &r.raft.raft_log;
        if log.last_index() != li || log.last_term() != lt || log.committed != lc {
            return None;
        }
        members.push(v);
    }
    Some(Conv { leader: l, members })
}

fn premise_holds(d: &Driver) -> bool {
    // with group commit on, progress additionally needs voters of two groups; that is a
    // configuration choice outside the statement, so such executions are not judged
    if d.knobs.group_commit {
        return false;
    }
    // a majority of each voter set (as seen by any running node) is running
    let run: BTreeSet<u64> = running(d).iter().map(|&v| d.sim.nodes[v].id).collect();
    let mut any_member = false;
    for &v in &running(d) {
        let c = &d.sim.nodes[v].conf;
        if c.voters.is_empty() {
            continue;
        }
        any_member = true;
        if !c.is_quorum(&run) {
            return false;
        }
    }
    // only never-joined (blank) nodes left: every member has applied its own removal and was shut
    // down by its application (possible when an id is removed and later re-added while the
    // original holder of the id lags) - there is no group to make progress
    any_member
}

fn one_round(d: &mut Driver, round: usize) {
    let n = d.sim.nodes.len();
    for v in 0..n {
        if d.sim.nodes[v].idle() {
            d.sim.exec(&Action::Tick(v));
        }
    }
    stop_removed(d);
    undo_throttles(d);
    // an application whose snapshot source was "temporarily unavailable" produces one
    if round % 4 == 3 {
        for v in 0..n {
            if d.sim.nodes[v].idle() {
                d.sim.exec(&Action::Checkpoint(v));
            }
        }
    }
    d.drain(64);
}

fn diagnose(d: &Driver) -> String {
    let mut s = String::new();
    for &v in &running(d) {
        let nd = &d.sim.nodes[v];
        let r = nd.raw.as_ref().unwrap();
        s.push_str(&format!(
            "[n{} first{} ck{:?} pf{} fu{} su{} {:?} t{} lead{} li{} lt{} c{} a{} reqsnap{} xfer{:?} conf{:?}",
            nd.id,
            r.raft.raft_log.first_index(),
            nd.store.with(|s| s.vol.ck.as_ref().map(|c| c.index)),
            nd.store.with(|s| s.pending_fetch.len()),
            nd.store.with(|s| s.fetch_unavailable),
            nd.store.with(|s| s.snap_unavailable),
            r.raft.state,
            r.raft.term,
            r.raft.leader_id,
            r.raft.raft_log.last_index(),
            r.raft.raft_log.last_term(),
            r.raft.raft_log.committed,
            r.raft.raft_log.applied,
            r.raft.pending_request_snapshot,
            r.raft.lead_transferee,
            nd.conf.voters
        ));
        if r.raft.state == StateRole::Leader {
            for (id, p) in r.raft.prs().iter() {
                s.push_str(&format!(
                    " p{}:{:?}/m{}/n{}/{}{}[ins {}/{}/{:?}]",
                    id,
                    p.state,
                    p.matched,
                    p.next_idx,
                    if p.paused { "paused" } else { "" },
                    if p.ins.full() { "full" } else { "" },
                    p.ins.verif_view().1,
                    p.ins.verif_view().2,
                    p.ins.verif_view().3
                ));
            }
        }
        s.push(']');
    }
    s
}

fn stuck_class(d: &Driver) -> &'static str {
    // coarse classification used in the violation signature
    let run = running(d);
    let leaders: Vec<usize> = run
        .iter()
        .cloned()
        .filter(|&v| d.sim.nodes[v].raw.as_ref().unwrap().raft.state == StateRole::Leader)
        .collect();
    if leaders.is_empty() {
        // a voter that outranks (priority) a candidate refuses it unless the candidate's log is
        // longer *by index*; if the outranking voter's own log is longer by index but older by
        // term, neither of the two can ever collect the other's vote
        for &a in &run {
            for &b in &run {
                if a == b {
                    continue;
                }
                let (ra, rb) = (d.sim.nodes[a].raw.as_ref().unwrap(), d.sim.nodes[b].raw.as_ref().unwrap());
                let (la, lb) = (&ra.raft.raft_log, &rb.raft.raft_log);
                let a_is_voter = d.sim.nodes[b].conf.is_voter(d.sim.nodes[a].id);
                if a_is_voter
                    && ra.raft.priority > rb.raft.priority
                    && lb.last_term() > la.last_term()
                    && lb.last_index() <= la.last_index()
                {
                    return "no-leader/higher-priority-voter-refuses-candidate-with-newer-but-shorter-log";
                }
            }
        }
        return "no-leader";
    }
    if leaders.len() > 1 {
        return "several-leaders";
    }
    let l = leaders[0];
    // without pre-vote and check-quorum a node at a higher term ignores the leader's traffic
    // silently, so the leader never learns that term: a member whose term was raised by somebody
    // the configuration no longer lists (a removed node that never learnt of its removal keeps
    // campaigning) is cut off from the leader for good
    if !d.knobs.pre_vote && !d.knobs.check_quorum {
        let lterm = d.sim.nodes[l].raw.as_ref().unwrap().raft.term;
        let mem = d.sim.nodes[l].conf.members();
        let member_above = run
            .iter()
            .any(|&v| mem.contains(&d.sim.nodes[v].id) && d.sim.nodes[v].raw.as_ref().unwrap().raft.term > lterm);
        let outsider_above = run
            .iter()
            .any(|&v| !mem.contains(&d.sim.nodes[v].id) && d.sim.nodes[v].raw.as_ref().unwrap().raft.term > lterm);
        if member_above && outsider_above {
            return "member-at-higher-term-ignores-leader/term-raised-by-removed-node/no-prevote-no-checkquorum";
        }
    }
    let lcommit = d.sim.nodes[l].raw.as_ref().unwrap().raft.raft_log.committed;
    let mut waiting = false;
    for &v in &run {
        let r = d.sim.nodes[v].raw.as_ref().unwrap().raft.pending_request_snapshot;
        if r != 0 {
            waiting = true;
            if r > lcommit {
                return "follower-waiting-for-requested-snapshot-beyond-leader-commit";
            }
        }
    }
    {
        // (checked before the weaker "some follower waits for a snapshot" class: a request the
        // leader holds for one follower beyond its own commit index is what blocks, whatever
        // another follower may be waiting for)
        let r = d.sim.nodes[l].raw.as_ref().unwrap();
        for (id, p) in r.raft.prs().iter() {
            if *id != d.sim.nodes[l].id && p.pending_request_snapshot > lcommit {
                return "leader-holds-snapshot-request-beyond-its-commit";
            }
        }
    }
    if waiting {
        return "follower-waiting-for-requested-snapshot";
    }
    let r = d.sim.nodes[l].raw.as_ref().unwrap();
    for (id, p) in r.raft.prs().iter() {
        if *id == d.sim.nodes[l].id {
            continue;
        }
        if p.state == raft::ProgressState::Snapshot {
            return "follower-stuck-in-snapshot-state";
        }
    }
    "logs-do-not-converge"
}

/// Condition counters at heal time (what degraded states the fair suffix starts from).
fn count_conditions(d: &mut Driver) {
    let mut fp = Fp::new();
    let run = running(d);
    let mut any_leader = false;
    for &v in &run {
        let r = d.sim.nodes[v].raw.as_ref().unwrap();
        fp.u(r.raft.state as u64);
        if r.raft.pending_request_snapshot != 0 {
            d.sim.mon.stats.inc("c10.heal_with_follower_requesting_snapshot");
            fp.u(101);
        }
        if d.sim.nodes[v].conf.is_joint() {
            d.sim.mon.stats.inc("c10.heal_with_joint_conf");
            fp.u(102);
        }
        if r.raft.state == StateRole::Leader {
            any_leader = true;
            if r.raft.lead_transferee.is_some() {
                d.sim.mon.stats.inc("c10.heal_with_transfer_pending");
                fp.u(103);
            }
            for (_, p) in r.raft.prs().iter() {
                match p.state {
                    raft::ProgressState::Snapshot => {
                        d.sim.mon.stats.inc("c10.heal_with_pending_snapshot");
                        fp.u(104);
                    }
                    raft::ProgressState::Probe if p.paused => {
                        d.sim.mon.stats.inc("c10.heal_with_paused_probe");
                        fp.u(105);
                    }
                    raft::ProgressState::Replicate if p.ins.full() => {
                        d.sim.mon.stats.inc("c10.heal_with_full_window");
                        fp.u(106);
                    }
                    _ => {}
                }
            }
        }
        let log = &r.raft.raft_log;
        fp.u(log.last_index() - log.committed).u((log.first_index() > 1) as u64);
    }
    if !any_leader {
        d.sim.mon.stats.inc("c10.heal_without_leader");
    }
    fp.u(d.sim.net.flights.len().min(8) as u64);
    d.sim.mon.stats.hit("C10", fp.get());
}

/// One (fault prefix, fair suffix) pair.
pub fn settle(d: &mut Driver) {
    if d.sim.aborted {
        return;
    }
    stop_faults(d);
    if d.sim.aborted {
        return;
    }
    count_conditions(d);
    d.sim.mon.stats.inc("c10.fair_suffixes");
    let et = d.knobs.election_tick;
    let step0 = d.sim.step;
    d.sim.log("SETTLE begin".into());
    let mut rounds = 0usize;
    let mut conv = None;
    // ---- variant A: quiet cluster
    while rounds < B_HARD * et && !d.sim.aborted {
        one_round(d, rounds);
        rounds += 1;
        if let Some(c) = converged(d) {
            conv = Some(c);
            break;
        }
    }
    if d.sim.aborted {
        return;
    }
    let mut variant_b = false;
    if conv.is_none() {
        if !premise_holds(d) {
            d.sim.mon.stats.inc("c10.premise_not_met");
            return;
        }
        // ---- variant B: keep a trickle of proposals going
        variant_b = true;
        let class_a = stuck_class(d);
        let diag_a = diagnose(d);
        let mut r2 = 0;
        while r2 < B_HARD * et && !d.sim.aborted {
            if r2 % 3 == 0 {
                if let Some(l) = (0..d.sim.nodes.len()).find(|&v| {
                    d.sim.nodes[v].idle()
                        && d.sim.nodes[v].raw.as_ref().unwrap().raft.state == StateRole::Leader
                }) {
                    d.sim.exec(&Action::Propose(l, 8));
                }
            }
            one_round(d, r2);
            r2 += 1;
            if let Some(c) = converged(d) {
                conv = Some(c);
                break;
            }
        }
        if d.sim.aborted {
            return;
        }
        let id = 0;
        if conv.is_some() {
            d.sim.mon.violation(
                "C10",
                "bounded-progress",
                format!("no-convergence-on-quiet-cluster/{}", class_a),
                format!(
                    "after faults stopped the cluster did not converge within {} election timeouts without client load (it did once proposals resumed): {}",
                    B_HARD, diag_a
                ),
                id,
                step0,
            );
        } else {
            if !premise_holds(d) {
                d.sim.mon.stats.inc("c10.premise_not_met");
                return;
            }
            let class_b = stuck_class(d);
            d.sim.mon.violation(
                "C10",
                "bounded-progress",
                format!("no-convergence/{}", class_b),
                format!(
                    "after faults stopped the cluster did not converge within {} election timeouts even with client load: {}",
                    2 * B_HARD,
                    diagnose(d)
                ),
                id,
                step0,
            );
        }
        if d.sim.mon.has_fatal() {
            d.sim.aborted = true;
        }
        return;
    }
    let _ = variant_b;
    let ets = rounds.div_ceil(et);
    if ets <= B_SOFT {
        d.sim.mon.stats.inc("c10.converged_within_soft_bound");
    } else {
        d.sim.mon.stats.inc("c10.converged_slow");
    }
    d.sim.mon.stats.add("c10.rounds_to_converge_total", rounds as u64);

    // ---- a fresh proposal must reach the application on every running member
    let mut target: Option<u64> = None;
    let mut r3 = 0;
    let mut done = false;
    while r3 < B_HARD * et && !d.sim.aborted {
        let c = match converged(d) {
            Some(c) => c,
            None => {
                // leadership moved again (e.g. a transfer completed); keep going
                one_round(d, r3);
                r3 += 1;
                continue;
            }
        };
        if target.is_none() {
            let l = c.leader;
            let before = d.sim.nodes[l].raw.as_ref().unwrap().raft.raft_log.last_index();
            if d.sim.nodes[l].idle() {
                d.sim.exec(&Action::Propose(l, 12));
                if let Some(r) = d.sim.nodes[l].raw.as_ref() {
                    let after = r.raft.raft_log.last_index();
                    if after > before && r.raft.state == StateRole::Leader {
                        target = Some(after);
                    }
                }
            }
        }
        one_round(d, r3);
        r3 += 1;
        if let Some(t) = target {
            if let Some(c) = converged(d) {
                let all = c
                    .members
                    .iter()
                    .all(|&v| d.sim.nodes[v].store.with(|s| s.vol.applied) >= t);
                if all {
                    done = true;
                    break;
                }
            }
        }
    }
    if d.sim.aborted {
        return;
    }
    if !done {
        if !premise_holds(d) {
            d.sim.mon.stats.inc("c10.premise_not_met");
            return;
        }
        d.sim.mon.violation(
            "C10",
            "bounded-progress",
            format!("fresh-proposal-not-applied-everywhere/{}", stuck_class(d)),
            format!(
                "a proposal made after convergence (index {:?}) was not handed to the application on every running member within {} election timeouts: {}",
                target,
                B_HARD,
                diagnose(d)
            ),
            0,
            step0,
        );
        if d.sim.mon.has_fatal() {
            d.sim.aborted = true;
        }
        return;
    }
    d.sim.mon.stats.inc("c10.fresh_proposal_applied_everywhere");
    d.sim.log("SETTLE end".into());
    let p = match d.profile {
        crate::sim::gen::Profile::Transfer => 1,
        crate::sim::gen::Profile::Lockstep => 0,
        _ => 4,
    };
    if p > 0 && d.rng.chance(1, p) {
        transfer_completion(d);
    }
}

/// C17(e): in a healthy, settled cluster a requested transfer either completes (target leads
/// a higher term, old leader follows it) or is abandoned with the leader accepting proposals
/// again; the cluster never ends up without a leader that accepts proposals (bounded).
pub fn transfer_completion(d: &mut Driver) {
    let c = match converged(d) {
        Some(c) => c,
        None => return,
    };
    if d.knobs.group_commit {
        return;
    }
    let l = c.leader;
    let lid = d.sim.nodes[l].id;
    let conf = d.sim.nodes[l].conf.clone();
    if !conf.voters.contains(&lid) {
        // a leader that has applied its own removal is about to be shut down by its application:
        // not the healthy cluster the completion clause speaks about
        return;
    }
    let cands: Vec<usize> = c
        .members
        .iter()
        .cloned()
        .filter(|&v| v != l && conf.voters.contains(&d.sim.nodes[v].id))
        .collect();
    if cands.is_empty() {
        return;
    }
    let u = cands[d.rng.usize(cands.len())];
    let uid = d.sim.nodes[u].id;
    let t0 = d.sim.nodes[l].raw.as_ref().unwrap().raft.term;
    let et = d.knobs.election_tick;
    d.sim.mon.stats.inc("c17.completion_attempts");
    // request at the leader or through a follower (which forwards it)
    let at = if d.rng.chance(1, 3) {
        let f: Vec<usize> = c.members.iter().cloned().filter(|&v| v != l).collect();
        f[d.rng.usize(f.len())]
    } else {
        l
    };
    d.sim.log(format!("TRANSFER-COMPLETION request at n{} target n{}", d.sim.nodes[at].id, uid));
    d.sim.exec(&Action::Transfer(at, uid));
    let mut rounds = 0;
    let mut outcome = "";
    while rounds < B_HARD * et && !d.sim.aborted {
        one_round(d, rounds);
        rounds += 1;
        let ur = match d.sim.nodes[u].raw.as_ref() {
            Some(r) => r,
            None => {
                outcome = "node-shut-down";
                break;
            }
        };
        let lr = match d.sim.nodes[l].raw.as_ref() {
            Some(r) => r,
            None => {
                outcome = "node-shut-down";
                break;
            }
        };
        if ur.raft.state == StateRole::Leader && ur.raft.term > t0 {
            // completed: the old leader must follow the target (once it has heard from it)
            if lr.raft.state == StateRole::Follower && lr.raft.leader_id == uid && lr.raft.term == ur.raft.term {
                outcome = "completed";
                break;
            }
        } else if rounds > 1 {
            // not (yet) completed: is there a usable leader (the old one after abandoning the
            // transfer or after being re-elected, or somebody else)?
            if let Some(cv) = converged(d) {
                let w = cv.leader;
                let wr = d.sim.nodes[w].raw.as_ref().unwrap();
                if w != u && wr.raft.lead_transferee.is_none() && d.sim.nodes[w].idle() {
                    let before = wr.raft.raft_log.last_index();
                    d.sim.exec(&Action::Propose(w, 8));
                    let after = d.sim.nodes[w].raw.as_ref().map(|r| r.raft.raft_log.last_index()).unwrap_or(0);
                    if after > before {
                        outcome = if w == l { "abandoned-leader-usable" } else { "other-leader" };
                        break;
                    }
                }
            }
        }
    }
    if d.sim.aborted {
        return;
    }
    match outcome {
        "completed" => {
            d.sim.mon.stats.inc("c17.completions");
            if rounds <= 2 * et {
                d.sim.mon.stats.inc("c17.completions_within_two_election_timeouts");
            }
        }
        "abandoned-leader-usable" => d.sim.mon.stats.inc("c17.completion_abandoned_leader_usable"),
        "other-leader" => d.sim.mon.stats.inc("c17.completion_other_leader_elected"),
        // a membership change that was still in the pipeline removed one of the two: not judged
        "node-shut-down" => d.sim.mon.stats.inc("c17.completion_not_judged_node_shut_down"),
        _ => {
            if !premise_holds(d) {
                return;
            }
            d.sim.mon.violation(
                "C17",
                "transfer-never-wedges",
                format!("transfer-neither-completed-nor-abandoned/{}", stuck_class(d)),
                format!(
                    "transfer from {} to {} requested in a healthy cluster: after {} election timeouts the target does not lead, and the old leader neither leads usably nor follows: {}",
                    lid, uid, B_HARD, diagnose(d)
                ),
                lid,
                d.sim.step,
            );
            if d.sim.mon.has_fatal() {
                d.sim.aborted = true;
            }
        }
    }
    let mut f = Fp::new();
    f.u(outcome.len() as u64).u((at == l) as u64).u(conf.voters.len() as u64).u(d.knobs.pre_vote as u64).u(d.knobs.check_quorum as u64).u(d.knobs.priorities as u64);
    d.sim.mon.stats.hit("C17", f.get());
}
