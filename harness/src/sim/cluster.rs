//! The cluster simulator: real `RawNode<SimStorage>` instances, a contract-abiding application
//! pipeline per node with explicit sub-steps, an adversarial network, crash/restart, and the
//! `call()` wrapper through which every library call is observed by the monitors.

use std::collections::VecDeque;
use std::panic::{catch_unwind, AssertUnwindSafe};
use std::rc::Rc;

use protobuf::Message as PbMessage;
use raft::eraftpb::{
    ConfChange, ConfChangeV2, Entry, EntryType, HardState, Message, MessageType, Snapshot,
};
use raft::{Config, RawNode, Ready, SnapshotStatus, StateRole};

use super::storage::{decode_snap_data, Image, SimStorage};
use super::types::*;
use crate::mon::Monitors;

#[derive(Clone, Copy, Debug, PartialEq, Eq)]
pub enum AppMode {
    /// ready -> write -> fsync -> send persisted -> apply -> advance() -> apply light -> advance_apply()
    Sync,
    /// ready -> write -> fsync -> send persisted -> advance_append(); apply lazily, advance_apply_to(i)
    Lazy,
    /// ready -> write -> advance_append_async(); later fsync + on_persist_ready(n); apply lazily
    Async,
}

#[derive(Clone, Copy, Debug, PartialEq, Eq)]
pub enum Stage {
    Idle,
    GotReady,
    SentImmediate,
    Written,
    Synced,
    SentPersisted,
    AppliedRd,
    Advanced,
}

pub struct Held {
    pub rd: Ready,
    pub number: u64,
    pub must_sync: bool,
    pub imm: Vec<Message>,
    pub gated: Vec<Message>,
    pub metas: Vec<u64>,
    pub ents: Vec<Entry>,
    pub snap: Option<Snapshot>,
    pub hs: Option<HardState>,
    pub committed: Vec<Entry>,
}

pub struct AsyncRec {
    pub number: u64,
    pub must_sync: bool,
    pub gated: Vec<Message>,
    pub metas: Vec<u64>,
}

pub struct Node {
    pub id: u64,
    pub raw: Option<Raw>,
    pub store: SimStorage,
    pub cfg: Config,
    pub mode: AppMode,
    pub inc: u32,
    pub stage: Stage,
    pub held: Option<Held>,
    pub light_committed: Vec<Entry>,
    pub async_recs: VecDeque<AsyncRec>,
    pub apply_q: VecDeque<Entry>,
    pub conf: Rc<Conf>,
    /// Shut down for good by the application (it applied its own removal).
    pub stopped: bool,
    pub crash_mid_send: bool,
    pub prop_ctr: u64,
    pub read_ctr: u64,
    /// Snapshots shipped by this node as leader and not yet reported: (to, index, delivered).
    pub snap_out: Vec<(u64, u64, bool)>,
    pub calls: u64,
    /// Group-commit group of this node id as configured by the application on every node.
    pub group: u64,
    /// How far below its durable applied index the application reports `Config.applied` at the
    /// next restart (it then de-duplicates the entries handed out again).
    pub under_report: u64,
    /// The application's apply worker is stalled (a fault that stops in the fair suffix):
    /// committed entries stay queued and `advance_apply_to` is not called.
    pub apply_hold: bool,
    /// Highest Ready number this incarnation has reported persisted (async mode).
    pub last_notified: u64,
    /// A snapshot the application has installed but whose `advance_apply_to` it has not issued yet
    /// (the apply worker reports it; only in executions with `late_snapshot_report`).
    pub pending_snap_report: Option<u64>,
}

impl Node {
    pub fn up(&self) -> bool {
        self.raw.is_some()
    }
    pub fn idle(&self) -> bool {
        self.raw.is_some() && self.stage == Stage::Idle
    }
}

#[derive(Clone, Debug)]
pub struct Flight {
    pub id: u32,
    pub m: Message,
    pub from_inc: u32,
    pub class: MsgClass,
    pub sent_step: usize,
    pub dup: bool,
    /// A copy of this message has already been delivered; this one is the late duplicate.
    pub late: bool,
}

#[derive(Default)]
pub struct Net {
    pub flights: Vec<Flight>,
    pub next_id: u32,
    /// blocked[from][to]
    pub blocked: [[bool; 16]; 16],
    pub fifo: bool,
    /// One in `echo_snapshots` snapshot messages is duplicated by the network at once; the copy
    /// arrives late (0 = never). `echo_state` is the network's own little PRNG.
    pub echo_snapshots: u64,
    pub echo_state: u64,
}

impl Net {
    pub fn is_blocked(&self, from: u64, to: u64) -> bool {
        if from >= 16 || to >= 16 {
            return false;
        }
        self.blocked[from as usize][to as usize]
    }
}

#[derive(Clone, Debug)]
pub enum ConfSpec {
    V1(raft::eraftpb::ConfChangeType, u64),
    V2(raft::eraftpb::ConfChangeTransition, Vec<(raft::eraftpb::ConfChangeType, u64)>),
}

#[derive(Clone, Debug)]
pub enum Action {
    Tick(usize),
    Deliver(usize),
    Dup(usize),
    Drop(usize),
    Pipe(usize),
    PipeForce(usize),
    Persist(usize, bool),
    /// A duplicate / late persistence notice: `on_persist_ready(n)` for a number already reported
    /// (n = last reported - back), while newer Readys may still be unsynced.
    PersistStale(usize, u64),
    Fsync(usize),
    Apply(usize, usize),
    Propose(usize, usize),
    ProposeConf(usize, ConfSpec),
    /// One `MsgPropose` carrying several entries (what `RawNode::step` accepts from an application
    /// that batches its proposals): `None` = an ordinary entry of that size, `Some` = a change.
    ProposeBatch(usize, Vec<(usize, Option<ConfSpec>)>),
    ReadIndex(usize),
    Transfer(usize, u64),
    Campaign(usize),
    RequestSnapshot(usize),
    ReportUnreachable(usize, u64),
    ReportSnap(usize, usize, bool),
    Crash(usize),
    CrashMidSend(usize),
    Restart(usize),
    RestartUnder(usize, u64),
    Partition(u64),
    /// Additionally cuts every link of one node id.
    Isolate(u64),
    Heal,
    Checkpoint(usize),
    Compact(usize, u64),
    ArmSnapUnavail(usize, u32),
    ArmFetchUnavail(usize, u32),
    CompleteFetch(usize),
    Knob(usize, u32, u64),
    OfferLocal(usize, u32),
    OfferStranger(usize, usize),
    Ping(usize),
}

pub struct Sim {
    pub nodes: Vec<Node>,
    pub net: Net,
    pub mon: Monitors,
    pub step: usize,
    pub trace: VecDeque<String>,
    pub trace_cap: usize,
    pub logger: slog::Logger,
    pub boot: u64,
    pub boot_term: u64,
    pub aborted: bool,
    pub harness_error: Option<String>,
    pub total_calls: u64,
    /// Wall-clock watchdog for one execution; firing makes the execution inconclusive.
    pub deadline: Option<std::time::Instant>,
    pub timed_out: bool,
    /// The apply worker, not the Ready loop, tells the library that an installed snapshot is
    /// applied (`advance_apply_to(snapshot index)` comes later, like for entries).
    pub late_snapshot_report: bool,
    /// The application's state machine store is durable on its own (fsynced at every apply),
    /// independently of the raft log store: after a crash of a leader that applied entries before
    /// persisting them (`max_apply_unpersisted_log_limit > 0`) the node restarts with
    /// `Config::applied` beyond its stable log - the library's "restart window".
    pub app_state_always_durable: bool,
}

thread_local! {
    pub static LAST_PANIC: std::cell::RefCell<Option<(String, String)>> = const { std::cell::RefCell::new(None) };
}

pub fn install_panic_hook() {
    std::panic::set_hook(Box::new(|info| {
        let msg = if let Some(s) = info.payload().downcast_ref::<&str>() {
            s.to_string()
        } else if let Some(s) = info.payload().downcast_ref::<String>() {
            s.clone()
        } else {
            "<non-string panic>".to_string()
        };
        let loc = info
            .location()
            .map(|l| format!("{}:{}", l.file(), l.line()))
            .unwrap_or_default();
        if std::env::var("RVMON_BT").is_ok() {
            eprintln!("panic at {}: {}\n{}", loc, msg, std::backtrace::Backtrace::force_capture());
        }
        LAST_PANIC.with(|p| *p.borrow_mut() = Some((msg, loc)));
    }));
}

pub const SM0: u64 = 0x1234_5678_9abc_def0;

impl Sim {
    pub fn new(mon: Monitors, trace_cap: usize) -> Sim {
        Sim {
            nodes: Vec::new(),
            net: Net::default(),
            mon,
            step: 0,
            trace: VecDeque::new(),
            trace_cap,
            logger: slog::Logger::root(slog::Discard, slog::o!()),
            boot: 0,
            boot_term: 0,
            aborted: false,
            harness_error: None,
            total_calls: 0,
            deadline: Some(std::time::Instant::now() + std::time::Duration::from_secs(30)),
            timed_out: false,
            late_snapshot_report: false,
            app_state_always_durable: false,
        }
    }

    pub fn log(&mut self, s: String) {
        if self.trace_cap == 0 {
            return;
        }
        if self.trace.len() >= self.trace_cap {
            self.trace.pop_front();
        }
        self.trace.push_back(format!("{:>5} {}", self.step, s));
    }

    pub fn idx_of(&self, id: u64) -> Option<usize> {
        self.nodes.iter().position(|n| n.id == id)
    }

    /// Adds a node with the given initial image and starts it.
    pub fn add_node(&mut self, id: u64, cfg: Config, mode: AppMode, img: Image, group: u64) {
        let store = SimStorage::new(img);
        let node = Node {
            id,
            raw: None,
            store,
            cfg,
            mode,
            inc: 0,
            stage: Stage::Idle,
            held: None,
            light_committed: Vec::new(),
            async_recs: VecDeque::new(),
            apply_q: VecDeque::new(),
            apply_hold: false,
            last_notified: 0,
            pending_snap_report: None,
            conf: Rc::new(Conf::default()),
            stopped: false,
            crash_mid_send: false,
            prop_ctr: 0,
            read_ctr: 0,
            snap_out: Vec::new(),
            calls: 0,
            group,
            under_report: 0,
        };
        self.nodes.push(node);
        let v = self.nodes.len() - 1;
        self.mon.on_node_added(v, id);
        self.start_node(v);
    }

    fn start_node(&mut self, v: usize) -> bool {
        let (cfg, store) = {
            let n = &mut self.nodes[v];
            let mut cfg = n.cfg.clone();
            // an application may under-report (never over-report) what it has applied; it must not
            // go below the compaction point
            let (applied, floor) = n.store.with(|s| (s.dur.applied, s.dur.snap_index));
            cfg.applied = applied.saturating_sub(n.under_report).max(floor.min(applied));
            n.under_report = 0;
            (cfg, n.store.clone())
        };
        let logger = self.logger.clone();
        let r = catch_unwind(AssertUnwindSafe(|| RawNode::new(&cfg, store, &logger)));
        match r {
            Ok(Ok(mut raw)) => {
                // Group-commit groups live only in memory: the application re-assigns them
                // whenever a state machine is initialised.
                let groups: Vec<(u64, u64)> = self
                    .nodes
                    .iter()
                    .filter(|n| n.group > 0)
                    .map(|n| (n.id, n.group))
                    .collect();
                if !groups.is_empty() {
                    raw.raft.assign_commit_groups(&groups);
                    raw.raft.enable_group_commit(true);
                }
                let conf = Rc::new(conf_of(&raw));
                let n = &mut self.nodes[v];
                n.conf = conf;
                n.raw = Some(raw);
                n.stage = Stage::Idle;
                let post = view_of(n.raw.as_ref().unwrap(), &n.conf);
                self.total_calls += 1;
                let nodes = &self.nodes;
                self.mon.on_new(nodes, v, &post, self.step);
                true
            }
            Ok(Err(e)) => {
                self.mon.violation(
                    "C20",
                    "new-error",
                    format!("RawNode::new returned error"),
                    format!("RawNode::new on node {} failed: {:?}", self.nodes[v].id, e),
                    self.nodes[v].id,
                    self.step,
                );
                false
            }
            Err(_) => {
                let (msg, loc) = LAST_PANIC.with(|p| p.borrow_mut().take()).unwrap_or_default();
                self.report_panic(v, "RawNode::new", msg, loc);
                false
            }
        }
    }

    fn report_panic(&mut self, v: usize, opname: &str, msg: String, loc: String) {
        let id = self.nodes[v].id;
        let breach = self.nodes[v].store.with_mut(|s| s.contract_breach.take());
        let in_lib = loc.contains("/repo/") || loc.starts_with("src/") || loc.contains("raft");
        let in_harness = loc.contains("harness/src") || loc.contains("/verif/");
        if in_harness && breach.is_none() && !in_lib {
            self.harness_error = Some(format!("harness panic in {} at {}: {}", opname, loc, msg));
            self.aborted = true;
            return;
        }
        // Strip numbers from the message for a stable signature.
        let mut sig_msg = String::new();
        let mut in_num = false;
        for c in msg.chars() {
            if c.is_ascii_digit() {
                if !in_num {
                    sig_msg.push('#');
                }
                in_num = true;
            } else {
                in_num = false;
                sig_msg.push(if c == '\n' { ' ' } else { c });
            }
            if sig_msg.len() >= 90 {
                break;
            }
        }
        self.mon.violation(
            "C20",
            "panic",
            format!("panic@{}|{}|{}", strip_line(&loc), sig_msg.replace('\n', " "), op_sig(opname)),
            format!(
                "library call {} on node {} panicked at {}: {}{}",
                opname,
                id,
                loc,
                msg,
                breach.map(|b| format!(" [{}]", b)).unwrap_or_default()
            ),
            id,
            self.step,
        );
        // The call belonged to the machinery of a specific property: the panic is also that
        // property's failure (its own monitor never got to see the result of the call).
        let owner: Option<&'static str> = if loc.contains("tracker/inflights.rs") {
            // the in-flight window's own guard fired: flow control let one send too many through
            Some("C13")
        } else if opname.starts_with("step(MsgSnapshot") || opname.starts_with("reportsnapshot") {
            Some("C15")
        } else if opname.starts_with("step(MsgReadIndex") || opname.starts_with("read_index") {
            Some("C08")
        } else if opname.starts_with("step(MsgTransferLeader") || opname.starts_with("transfer") {
            Some("C17")
        } else if opname.starts_with("propose_conf") || opname.starts_with("apply_conf_change") {
            Some("C09")
        } else if opname.starts_with("ready") || opname.starts_with("advance") || opname.starts_with("onpersistready") {
            Some("C07")
        } else {
            None
        };
        if let Some(prop) = owner {
            let first = self.mon.violations.last().map(|v| v.detail.clone()).unwrap_or_default();
            self.mon.violation(
                prop,
                "call-panicked",
                format!("panic-in/{}|{}", op_sig(opname), sig_msg.replace('\n', " ")),
                first,
                id,
                self.step,
            );
        }
        // The node object is in an unknown state: treat it as crashed.
        self.kill(v);
    }

    pub fn kill(&mut self, v: usize) {
        {
            let nodes = &self.nodes;
            self.mon.before_crash(nodes, v);
        }
        let n = &mut self.nodes[v];
        n.raw = None;
        n.held = None;
        n.light_committed.clear();
        n.async_recs.clear();
        n.apply_q.clear();
        n.apply_hold = false;
        n.last_notified = 0;
        n.pending_snap_report = None;
        n.stage = Stage::Idle;
        n.crash_mid_send = false;
        n.snap_out.clear();
        n.store.crash();
        self.mon.on_crash(v);
    }

    /// Every library call goes through here.
    pub fn call<R>(
        &mut self,
        v: usize,
        op: Op,
        f: impl FnOnce(&mut Raw) -> R,
        to_res: impl FnOnce(&R) -> Res,
    ) -> Option<R> {
        if self.aborted {
            return None;
        }
        let node = &mut self.nodes[v];
        let raw = node.raw.as_mut()?;
        let pre = view_of(raw, &node.conf);
        let r = catch_unwind(AssertUnwindSafe(|| f(raw)));
        self.total_calls += 1;
        match r {
            Err(_) => {
                let (msg, loc) = LAST_PANIC.with(|p| p.borrow_mut().take()).unwrap_or_default();
                let name = op.short();
                self.log(format!("n{} {} => PANIC {}", self.nodes[v].id, name, msg));
                self.report_panic(v, &name, msg, loc);
                if self.mon.has_fatal() || self.harness_error.is_some() {
                    self.aborted = true;
                }
                None
            }
            Ok(r) => {
                // Reading the node's state back (views, log contents) uses the library's own
                // query functions; if one of them trips an internal check the state is corrupt.
                let observed = catch_unwind(AssertUnwindSafe(|| self.observe_after(v, &pre, &op, to_res(&r))));
                match observed {
                    Ok(true) => Some(r),
                    Ok(false) => None,
                    Err(_) => {
                        let (msg, loc) = LAST_PANIC.with(|p| p.borrow_mut().take()).unwrap_or_default();
                        let name = format!("observe-after-{}", op.short());
                        self.log(format!("n{} {} => PANIC while reading state: {}", self.nodes[v].id, name, msg));
                        let id = self.nodes[v].id;
                        if loc.contains("/repo/") {
                            self.mon.violation(
                                "C14",
                                "queries-never-panic",
                                format!("log-query-panicked@{}", strip_line(&loc)),
                                format!("node {}: reading the log after {} panicked at {}: {}", id, op.short(), loc, msg),
                                id,
                                self.step,
                            );
                        }
                        self.report_panic(v, &name, msg, loc);
                        if self.mon.has_fatal() || self.harness_error.is_some() {
                            self.aborted = true;
                        }
                        None
                    }
                }
            }
        }
    }

    /// Post-call observation: refresh the cached configuration, take the view, run the monitors.
    fn observe_after(&mut self, v: usize, pre: &View, op: &Op, res: Res) -> bool {
        {
            {
                let node = &mut self.nodes[v];
                node.calls += 1;
                let raw = node.raw.as_ref().unwrap();
                let conf_may_change = match &op {
                    Op::ApplyConfChange(_) | Op::New => true,
                    Op::Step(m) => m.get_msg_type() == MessageType::MsgSnapshot,
                    _ => false,
                };
                if conf_may_change || node.calls % 64 == 0 {
                    let c = conf_of(raw);
                    if *node.conf != c {
                        if !conf_may_change {
                            self.harness_error = Some(format!(
                                "configuration changed in an unexpected call {}",
                                op.short()
                            ));
                            self.aborted = true;
                            return false;
                        }
                        node.conf = Rc::new(c);
                    }
                }
                let post = view_of(raw, &node.conf);
                if self.trace_cap > 0 {
                    let id = node.id;
                    let s = format!(
                        "n{} {} => {:?} [{:?} t{} v{} l{} c{} a{} p{} li{} lt{}]{}",
                        id,
                        op.short(),
                        res,
                        post.state,
                        post.term,
                        post.vote,
                        post.leader_id,
                        post.committed,
                        post.applied,
                        post.persisted,
                        post.last_index,
                        post.last_term,
                        if post.pending_reads > 0 || post.read_states_len > 0 {
                            format!(" reads pending {} answered {}", post.pending_reads, post.read_states_len)
                        } else {
                            String::new()
                        }
                    );
                    self.log(s);
                }
                let nodes = &self.nodes;
                let step = self.step;
                self.mon.after_call(nodes, v, pre, &post, op, &res, step);
                if self.mon.has_fatal() {
                    self.aborted = true;
                }
                true
            }
        }
    }

    // ------------------------------------------------------------------ sending

    fn send(&mut self, v: usize, msgs: Vec<Message>, metas: Vec<u64>, class: MsgClass) {
        let mut msgs = msgs;
        let mut crash_after = false;
        if self.nodes[v].crash_mid_send && !msgs.is_empty() {
            // keep a deterministic prefix: half
            let k = msgs.len() / 2;
            msgs.truncate(k);
            crash_after = true;
        }
        for (k, m) in msgs.into_iter().enumerate() {
            {
                let nodes = &self.nodes;
                let meta = metas.get(k).cloned().unwrap_or(0);
                self.mon.on_release(nodes, v, &m, class, meta, self.step);
            }
            if m.get_msg_type() == MessageType::MsgSnapshot {
                let idx = m.get_snapshot().get_metadata().index;
                self.nodes[v].snap_out.push((m.to, idx, false));
            }
            let id = self.net.next_id;
            self.net.next_id += 1;
            if self.trace_cap > 0 {
                self.log(format!(
                    "n{} send#{} {:?} {:?} ->{} t{} i{} lt{} c{} n{}{}",
                    self.nodes[v].id,
                    id,
                    class,
                    m.get_msg_type(),
                    m.to,
                    m.term,
                    m.index,
                    m.log_term,
                    m.commit,
                    m.entries.len(),
                    if m.reject { " rej" } else { "" }
                ));
            }
            let inc = self.nodes[v].inc;
            if m.get_msg_type() == MessageType::MsgSnapshot && self.net.echo_snapshots > 0 {
                let mut x = self.net.echo_state | 1;
                x ^= x << 13;
                x ^= x >> 7;
                x ^= x << 17;
                self.net.echo_state = x;
                if x % self.net.echo_snapshots == 0 {
                    let id2 = self.net.next_id;
                    self.net.next_id += 1;
                    self.net.flights.push(Flight {
                        id: id2,
                        m: m.clone(),
                        from_inc: inc,
                        class,
                        sent_step: self.step,
                        dup: true,
                        late: true,
                    });
                }
            }
            self.net.flights.push(Flight {
                id,
                m,
                from_inc: inc,
                class,
                sent_step: self.step,
                dup: false,
                late: false,
            });
        }
        if self.mon.has_fatal() {
            self.aborted = true;
        }
        if crash_after {
            self.log(format!("n{} CRASH (mid-send)", self.nodes[v].id));
            self.kill(v);
        }
    }

    // ------------------------------------------------------------------ application: apply

    /// Applies one committed entry to the application state machine of node v.
    fn app_apply(&mut self, v: usize, e: &Entry) {
        let id = self.nodes[v].id;
        // de-duplication: after a restart that under-reported the applied index the library
        // hands out entries the application has already applied
        if e.index <= self.nodes[v].store.with(|s| s.vol.applied) {
            self.mon.stats.inc("app.duplicate_handouts_skipped");
            return;
        }
        // conf change first (the returned ConfState is stored with the applied index)
        let mut new_cs = None;
        let mut removed_self = false;
        if is_conf_entry(e) {
            let cc: Option<ConfChangeV2> = match e.get_entry_type() {
                EntryType::EntryConfChange => {
                    let mut c = ConfChange::default();
                    if c.merge_from_bytes(e.get_data()).is_ok() {
                        Some(raft_proto_into_v2(c))
                    } else {
                        None
                    }
                }
                _ => {
                    let mut c = ConfChangeV2::default();
                    if c.merge_from_bytes(e.get_data()).is_ok() {
                        Some(c)
                    } else {
                        None
                    }
                }
            };
            if let Some(cc) = cc {
                let ccb = Box::new(cc.clone());
                let r = self.call(
                    v,
                    Op::ApplyConfChange(ccb),
                    |raw| raw.apply_conf_change(&cc),
                    |r| match r {
                        Ok(_) => Res::Ok,
                        Err(e) => Res::Err(format!("{:?}", e)),
                    },
                );
                match r {
                    Some(Ok(cs)) => {
                        let c = Conf::from_cs(&cs);
                        removed_self = !c.members().contains(&id);
                        new_cs = Some(cs);
                    }
                    Some(Err(_)) => {}
                    None => return,
                }
            }
        }
        let n = &mut self.nodes[v];
        n.store.with_mut(|s| {
            s.vol.sm = sm_fold(s.vol.sm, e);
            s.vol.applied = e.index;
            if let Some(cs) = &new_cs {
                s.vol.conf = cs.clone();
            }
        });
        let nodes = &self.nodes;
        self.mon
            .on_applied(nodes, v, e, new_cs.is_some(), removed_self, self.step);
        if self.mon.has_fatal() {
            self.aborted = true;
        }
    }

    fn do_apply(&mut self, v: usize, k: usize) -> bool {
        if !self.nodes[v].idle() || self.nodes[v].apply_hold {
            return false;
        }
        if let Some(si) = self.nodes[v].pending_snap_report.take() {
            self.mon.stats.inc("app.late_snapshot_reports");
            self.call(v, Op::AdvanceApplyTo(si), |raw| raw.advance_apply_to(si), |_| Res::Unit);
            return true;
        }
        if self.nodes[v].apply_q.is_empty() {
            return false;
        }
        let mut last = 0;
        for _ in 0..k {
            let e = match self.nodes[v].apply_q.pop_front() {
                Some(e) => e,
                None => break,
            };
            // The node may have accepted a snapshot (in `step`) after these entries were handed
            // out; the snapshot covers them, and calling `apply_conf_change` for one of them would
            // change the configuration the snapshot has just installed. Like TiKV (which skips
            // conf-change results below `raft_log.first_index()`), the apply worker drops them;
            // the application state jumps when the snapshot Ready is written.
            let first = self.nodes[v].raw.as_ref().map(|r| r.raft.raft_log.first_index()).unwrap_or(0);
            if e.index < first {
                self.mon.stats.inc("app.queued_entries_covered_by_accepted_snapshot_dropped");
                continue;
            }
            last = e.index;
            self.app_apply(v, &e);
            if self.aborted || !self.nodes[v].up() {
                return true;
            }
        }
        if last > 0 {
            self.call(
                v,
                Op::AdvanceApplyTo(last),
                |raw| raw.advance_apply_to(last),
                |_| Res::Unit,
            );
        }
        true
    }

    // ------------------------------------------------------------------ application: ready pipeline

    fn handle_light(&mut self, v: usize, mut light: raft::LightReady, lazy: bool) {
        let metas = {
            let nodes = &self.nodes;
            self.mon.on_light(nodes, v, &light, self.step)
        };
        if let Some(c) = light.commit_index() {
            self.nodes[v].store.set_commit(c);
        }
        let msgs = light.take_messages();
        let committed = light.take_committed_entries();
        if lazy {
            self.nodes[v].apply_q.extend(committed);
        } else {
            self.nodes[v].light_committed = committed;
        }
        self.send(v, msgs, metas, MsgClass::Light);
    }

    pub fn do_pipe(&mut self, v: usize, force_empty_ready: bool) -> bool {
        if !self.nodes[v].up() {
            return false;
        }
        let mode = self.nodes[v].mode;
        match self.nodes[v].stage {
            Stage::Idle => {
                let has = self.nodes[v].raw.as_ref().unwrap().has_ready();
                {
                    let nodes = &self.nodes;
                    self.mon.on_has_ready(nodes, v, has, self.step);
                    if self.mon.has_fatal() {
                        self.aborted = true;
                        return true;
                    }
                }
                if !has && !force_empty_ready {
                    return false;
                }
                let rd = match self.call(v, Op::Ready, |raw| raw.ready(), |_| Res::Unit) {
                    Some(rd) => rd,
                    None => return true,
                };
                if self.trace_cap > 0 && !rd.read_states().is_empty() {
                    let ids = self.nodes[v].id;
                    let s: Vec<String> = rd
                        .read_states()
                        .iter()
                        .map(|r| format!("{}@{}", String::from_utf8_lossy(&r.request_ctx), r.index))
                        .collect();
                    self.log(format!("n{} read states {:?}", ids, s));
                }
                let metas = {
                    let nodes = &self.nodes;
                    self.mon.on_ready(nodes, v, &rd, has, self.step)
                };
                let mut rd = rd;
                let imm = rd.take_messages();
                let gated = rd.take_persisted_messages();
                let ents = rd.take_entries();
                let snap = if rd.snapshot().is_empty() {
                    None
                } else {
                    Some(rd.snapshot().clone())
                };
                let hs = rd.hs().cloned();
                let committed = rd.take_committed_entries();
                let _ = rd.take_read_states();
                let held = Held {
                    number: rd.number(),
                    must_sync: rd.must_sync(),
                    rd,
                    imm,
                    gated,
                    metas,
                    ents,
                    snap,
                    hs,
                    committed,
                };
                self.nodes[v].held = Some(held);
                self.nodes[v].stage = Stage::GotReady;
                if self.mon.has_fatal() {
                    self.aborted = true;
                }
            }
            Stage::GotReady => {
                let imm = std::mem::take(&mut self.nodes[v].held.as_mut().unwrap().imm);
                let metas = if imm.is_empty() {
                    Vec::new()
                } else {
                    std::mem::take(&mut self.nodes[v].held.as_mut().unwrap().metas)
                };
                self.nodes[v].stage = Stage::SentImmediate;
                self.send(v, imm, metas, MsgClass::Immediate);
            }
            Stage::SentImmediate => {
                // write snapshot, entries, hard state to the volatile image
                let n = &mut self.nodes[v];
                let h = n.held.as_mut().unwrap();
                let mut err = None;
                if let Some(s) = &h.snap {
                    let sm = decode_snap_data(s.get_data()).map(|x| x.1);
                    match sm {
                        Some(sm) => n.store.install_snapshot(s, sm),
                        None => err = Some("snapshot data is not what any application produced".to_string()),
                    }
                    // entries queued for apply that the snapshot covers are obsolete
                    let si = s.get_metadata().index;
                    while n.apply_q.front().is_some_and(|e| e.index <= si) {
                        n.apply_q.pop_front();
                    }
                }
                if err.is_none() {
                    if let Err(e) = n.store.append(&h.ents) {
                        err = Some(e);
                    }
                }
                if let Some(hs) = &h.hs {
                    n.store.set_hs(hs);
                }
                n.stage = Stage::Written;
                let snap_installed = h.snap.clone();
                if let Some(e) = err {
                    let id = n.id;
                    self.mon.violation(
                        "C07",
                        "unwritable-ready",
                        "ready-not-writable".into(),
                        format!("node {}: cannot write Ready to storage: {}", id, e),
                        id,
                        self.step,
                    );
                    self.aborted = true;
                    return true;
                }
                let nodes = &self.nodes;
                self.mon.on_written(nodes, v, snap_installed.as_ref(), self.step);
                if self.mon.has_fatal() {
                    self.aborted = true;
                }
            }
            Stage::Written => match mode {
                AppMode::Async => {
                    let h = self.nodes[v].held.take().unwrap();
                    let snap_index = h.snap.as_ref().map(|s| s.get_metadata().index);
                    let Held {
                        rd,
                        number,
                        must_sync,
                        gated,
                        metas,
                        committed,
                        ..
                    } = h;
                    self.nodes[v].stage = Stage::Idle;
                    if self
                        .call(
                            v,
                            Op::AdvanceAppendAsync,
                            |raw| raw.advance_append_async(rd),
                            |_| Res::Unit,
                        )
                        .is_none()
                    {
                        return true;
                    }
                    let n = &mut self.nodes[v];
                    n.async_recs.push_back(AsyncRec {
                        number,
                        must_sync,
                        gated,
                        metas,
                    });
                    n.apply_q.extend(committed);
                    // the application installed the snapshot when it wrote the Ready: report it
                    if let Some(si) = snap_index {
                        if self.late_snapshot_report {
                            self.nodes[v].pending_snap_report = Some(si);
                        } else {
                            self.call(
                                v,
                                Op::AdvanceApplyTo(si),
                                |raw| raw.advance_apply_to(si),
                                |_| Res::Unit,
                            );
                        }
                    }
                }
                _ => {
                    let must = self.nodes[v].held.as_ref().unwrap().must_sync;
                    if must {
                        let from = self.nodes[v].store.fsync();
                        let nodes = &self.nodes;
                        self.mon.on_fsync(nodes, v, from, self.step);
                    }
                    self.nodes[v].stage = Stage::Synced;
                }
            },
            Stage::Synced => {
                let gated = std::mem::take(&mut self.nodes[v].held.as_mut().unwrap().gated);
                let metas = std::mem::take(&mut self.nodes[v].held.as_mut().unwrap().metas);
                self.nodes[v].stage = Stage::SentPersisted;
                self.send(v, gated, metas, MsgClass::Persisted);
            }
            Stage::SentPersisted => match mode {
                AppMode::Sync => {
                    let committed =
                        std::mem::take(&mut self.nodes[v].held.as_mut().unwrap().committed);
                    self.nodes[v].stage = Stage::AppliedRd;
                    for e in &committed {
                        self.app_apply(v, e);
                        if self.aborted || !self.nodes[v].up() {
                            return true;
                        }
                    }
                }
                _ => {
                    let h = self.nodes[v].held.take().unwrap();
                    self.nodes[v].stage = Stage::Idle;
                    let snap_index = h.snap.as_ref().map(|s| s.get_metadata().index);
                    let Held { rd, committed, .. } = h;
                    let light = match self.call(
                        v,
                        Op::AdvanceAppend,
                        |raw| raw.advance_append(rd),
                        |_| Res::Unit,
                    ) {
                        Some(l) => l,
                        None => return true,
                    };
                    self.nodes[v].apply_q.extend(committed);
                    self.handle_light(v, light, true);
                    if let Some(si) = snap_index {
                        if self.nodes[v].up() {
                            if self.late_snapshot_report {
                                self.nodes[v].pending_snap_report = Some(si);
                            } else {
                                self.call(
                                    v,
                                    Op::AdvanceApplyTo(si),
                                    |raw| raw.advance_apply_to(si),
                                    |_| Res::Unit,
                                );
                            }
                        }
                    }
                }
            },
            Stage::AppliedRd => {
                let h = self.nodes[v].held.take().unwrap();
                self.nodes[v].stage = Stage::Advanced;
                let light = match self.call(v, Op::Advance, |raw| raw.advance(h.rd), |_| Res::Unit)
                {
                    Some(l) => l,
                    None => return true,
                };
                self.handle_light(v, light, false);
            }
            Stage::Advanced => {
                let committed = std::mem::take(&mut self.nodes[v].light_committed);
                self.nodes[v].stage = Stage::Idle;
                let mut last = 0;
                for e in &committed {
                    last = e.index;
                    self.app_apply(v, e);
                    if self.aborted || !self.nodes[v].up() {
                        return true;
                    }
                }
                if last > 0 {
                    self.call(
                        v,
                        Op::AdvanceApplyTo(last),
                        |raw| raw.advance_apply_to(last),
                        |_| Res::Unit,
                    );
                }
            }
        }
        true
    }

    /// Async mode: fsync everything written so far and notify the library.
    fn do_persist(&mut self, v: usize, one_by_one: bool) -> bool {
        if !self.nodes[v].idle() || self.nodes[v].mode != AppMode::Async {
            return false;
        }
        if self.nodes[v].async_recs.is_empty() {
            return false;
        }
        let from = self.nodes[v].store.fsync();
        {
            let nodes = &self.nodes;
            self.mon.on_fsync(nodes, v, from, self.step);
        }
        let recs: Vec<AsyncRec> = self.nodes[v].async_recs.drain(..).collect();
        let maxn = recs.last().unwrap().number;
        self.nodes[v].last_notified = maxn;
        if one_by_one {
            for r in &recs {
                let n = r.number;
                if self
                    .call(
                        v,
                        Op::OnPersistReady(n),
                        |raw| raw.on_persist_ready(n),
                        |_| Res::Unit,
                    )
                    .is_none()
                {
                    return true;
                }
            }
        } else if self
            .call(
                v,
                Op::OnPersistReady(maxn),
                |raw| raw.on_persist_ready(maxn),
                |_| Res::Unit,
            )
            .is_none()
        {
            return true;
        }
        for r in recs {
            self.send(v, r.gated, r.metas, MsgClass::Persisted);
            if !self.nodes[v].up() {
                break;
            }
        }
        true
    }

    // ------------------------------------------------------------------ actions

    /// Executes one action; returns false if it was not applicable (nothing happened).
    pub fn exec(&mut self, a: &Action) -> bool {
        if self.aborted {
            return false;
        }
        self.step += 1;
        if self.step % 4096 == 0 {
            if let Some(d) = self.deadline {
                if std::time::Instant::now() > d {
                    self.timed_out = true;
                    self.aborted = true;
                    return false;
                }
            }
        }
        match a {
            Action::Tick(v) => {
                if !self.nodes[*v].idle() {
                    return false;
                }
                self.call(*v, Op::Tick, |raw| raw.tick(), |r| Res::Bool(*r))
                    .is_some()
            }
            Action::Deliver(i) | Action::Dup(i) => {
                let i = *i;
                if i >= self.net.flights.len() {
                    return false;
                }
                let to = self.net.flights[i].m.to;
                let from = self.net.flights[i].m.from;
                let v = match self.idx_of(to) {
                    Some(v) => v,
                    None => {
                        self.net.flights.swap_remove(i);
                        return true;
                    }
                };
                if !self.nodes[v].idle() || self.net.is_blocked(from, to) {
                    return false;
                }
                let fl = if matches!(a, Action::Dup(_)) {
                    let mut f = self.net.flights[i].clone();
                    f.dup = true;
                    self.net.flights[i].late = true;
                    f
                } else if self.net.fifo {
                    self.net.flights.remove(i)
                } else {
                    self.net.flights.swap_remove(i)
                };
                self.deliver(v, fl);
                true
            }
            Action::Drop(i) => {
                if *i >= self.net.flights.len() {
                    return false;
                }
                let fl = self.net.flights.swap_remove(*i);
                if self.trace_cap > 0 {
                    self.log(format!("drop#{} {:?}", fl.id, fl.m.get_msg_type()));
                }
                self.mon.stats.inc("net.dropped");
                true
            }
            Action::Pipe(v) => self.do_pipe(*v, false),
            Action::PipeForce(v) => self.do_pipe(*v, true),
            Action::Persist(v, one) => self.do_persist(*v, *one),
            Action::PersistStale(v, back) => {
                let v = *v;
                let nd = &self.nodes[v];
                if !nd.idle() || nd.mode != AppMode::Async || nd.last_notified == 0 {
                    return false;
                }
                let n = nd.last_notified.saturating_sub(*back).max(1);
                self.mon.stats.inc("app.stale_persist_notices");
                self.call(v, Op::OnPersistReady(n), |raw| raw.on_persist_ready(n), |_| Res::Unit);
                true
            }
            Action::Fsync(v) => {
                // Background flush. Only at Idle in the synchronous modes (there everything
                // written has already been synced when required) so that "durable" never runs
                // ahead of what the library has been told, see DESIGN 2.1.
                let n = &self.nodes[*v];
                if !n.idle() || n.mode == AppMode::Async {
                    return false;
                }
                let from = n.store.fsync();
                let nodes = &self.nodes;
                self.mon.on_fsync(nodes, *v, from, self.step);
                true
            }
            Action::Apply(v, k) => self.do_apply(*v, *k),
            Action::Propose(v, size) => {
                let v = *v;
                if !self.nodes[v].idle() {
                    return false;
                }
                let n = &mut self.nodes[v];
                n.prop_ctr += 1;
                let mut data = format!("p{}.{}.{}", n.id, n.inc, n.prop_ctr).into_bytes();
                if *size == 0 {
                    data.clear();
                } else {
                    while data.len() < *size {
                        data.push(b'.');
                    }
                }
                let d2 = data.clone();
                self.call(
                    v,
                    Op::Propose(data),
                    |raw| raw.propose(vec![], d2),
                    |r| match r {
                        Ok(_) => Res::Ok,
                        Err(e) => Res::Err(format!("{:?}", e)),
                    },
                )
                .is_some()
            }
            Action::ProposeConf(v, spec) => {
                let v = *v;
                if !self.nodes[v].idle() {
                    return false;
                }
                let n = &mut self.nodes[v];
                n.prop_ctr += 1;
                let ctx = format!("c{}.{}.{}", n.id, n.inc, n.prop_ctr).into_bytes();
                match spec {
                    ConfSpec::V1(t, id) => {
                        let mut cc = ConfChange::default();
                        cc.set_change_type(*t);
                        cc.node_id = *id;
                        cc.set_context(ctx.clone().into());
                        let v2 = raft_proto_into_v2(cc.clone());
                        self.call(
                            v,
                            Op::ProposeConf(Box::new(v2), true),
                            |raw| raw.propose_conf_change(vec![], cc),
                            |r| match r {
                                Ok(_) => Res::Ok,
                                Err(e) => Res::Err(format!("{:?}", e)),
                            },
                        )
                        .is_some()
                    }
                    ConfSpec::V2(tr, changes) => {
                        let mut cc = ConfChangeV2::default();
                        cc.set_transition(*tr);
                        for (t, id) in changes {
                            let mut s = raft::eraftpb::ConfChangeSingle::default();
                            s.set_change_type(*t);
                            s.node_id = *id;
                            cc.mut_changes().push(s);
                        }
                        if !changes.is_empty() {
                            cc.set_context(ctx.into());
                        }
                        let c2 = cc.clone();
                        self.call(
                            v,
                            Op::ProposeConf(Box::new(c2), false),
                            |raw| raw.propose_conf_change(vec![], cc),
                            |r| match r {
                                Ok(_) => Res::Ok,
                                Err(e) => Res::Err(format!("{:?}", e)),
                            },
                        )
                        .is_some()
                    }
                }
            }
            Action::ProposeBatch(v, items) => {
                let v = *v;
                if !self.nodes[v].idle() || items.is_empty() {
                    return false;
                }
                let mut m = Message::default();
                m.set_msg_type(MessageType::MsgPropose);
                m.from = self.nodes[v].id;
                let mut ents = Vec::new();
                for (size, spec) in items {
                    let n = &mut self.nodes[v];
                    n.prop_ctr += 1;
                    let mut e = Entry::default();
                    match spec {
                        None => {
                            let mut data = format!("p{}.{}.{}", n.id, n.inc, n.prop_ctr).into_bytes();
                            while data.len() < *size {
                                data.push(b'.');
                            }
                            e.set_entry_type(EntryType::EntryNormal);
                            e.data = data.into();
                        }
                        Some(ConfSpec::V1(t, id)) => {
                            let ctx = format!("c{}.{}.{}", n.id, n.inc, n.prop_ctr).into_bytes();
                            let mut cc = ConfChange::default();
                            cc.set_change_type(*t);
                            cc.node_id = *id;
                            cc.set_context(ctx.into());
                            e.set_entry_type(EntryType::EntryConfChange);
                            e.data = cc.write_to_bytes().unwrap().into();
                        }
                        Some(ConfSpec::V2(tr, changes)) => {
                            let ctx = format!("c{}.{}.{}", n.id, n.inc, n.prop_ctr).into_bytes();
                            let mut cc = ConfChangeV2::default();
                            cc.set_transition(*tr);
                            for (t, id) in changes {
                                let mut s = raft::eraftpb::ConfChangeSingle::default();
                                s.set_change_type(*t);
                                s.node_id = *id;
                                cc.mut_changes().push(s);
                            }
                            if !changes.is_empty() {
                                cc.set_context(ctx.into());
                            }
                            e.set_entry_type(EntryType::EntryConfChangeV2);
                            e.data = cc.write_to_bytes().unwrap().into();
                        }
                    }
                    ents.push(e);
                }
                m.set_entries(ents.into());
                self.mon.stats.inc("app.batched_proposals");
                let m2 = m.clone();
                self.call(
                    v,
                    Op::Step(Box::new(m)),
                    |raw| raw.step(m2),
                    |r| match r {
                        Ok(_) => Res::Ok,
                        Err(e) => Res::Err(format!("{:?}", e)),
                    },
                )
                .is_some()
            }
            Action::ReadIndex(v) => {
                let v = *v;
                if !self.nodes[v].idle() {
                    return false;
                }
                let n = &mut self.nodes[v];
                n.read_ctr += 1;
                let ctx = format!("r{}.{}.{}", n.id, n.inc, n.read_ctr).into_bytes();
                {
                    let nodes = &self.nodes;
                    self.mon.on_read_issue(nodes, v, &ctx, self.step);
                }
                let c2 = ctx.clone();
                if self.trace_cap > 0 {
                    let ids = self.nodes[v].id;
                    self.log(format!("n{} read_index ctx {}", ids, String::from_utf8_lossy(&ctx)));
                }
                self.call(v, Op::ReadIndex(ctx), |raw| raw.read_index(c2), |_| Res::Unit)
                    .is_some()
            }
            Action::Transfer(v, target) => {
                let (v, t) = (*v, *target);
                if !self.nodes[v].idle() {
                    return false;
                }
                self.call(v, Op::Transfer(t), |raw| raw.transfer_leader(t), |_| Res::Unit)
                    .is_some()
            }
            Action::Campaign(v) => {
                let v = *v;
                // RawNode::campaign() bypasses the promotable check; only voters call it.
                if !self.nodes[v].idle() || !self.nodes[v].raw.as_ref().unwrap().raft.promotable()
                {
                    return false;
                }
                self.call(
                    v,
                    Op::Campaign,
                    |raw| raw.campaign(),
                    |r| match r {
                        Ok(_) => Res::Ok,
                        Err(e) => Res::Err(format!("{:?}", e)),
                    },
                )
                .is_some()
            }
            Action::RequestSnapshot(v) => {
                let v = *v;
                if !self.nodes[v].idle() {
                    return false;
                }
                self.call(
                    v,
                    Op::RequestSnapshot,
                    |raw| raw.request_snapshot(),
                    |r| match r {
                        Ok(_) => Res::Ok,
                        Err(e) => Res::Err(format!("{:?}", e)),
                    },
                )
                .is_some()
            }
            Action::ReportUnreachable(v, id) => {
                let (v, id) = (*v, *id);
                if !self.nodes[v].idle() {
                    return false;
                }
                self.call(
                    v,
                    Op::ReportUnreachable(id),
                    |raw| raw.report_unreachable(id),
                    |_| Res::Unit,
                )
                .is_some()
            }
            Action::ReportSnap(v, k, ok) => {
                let (v, k, ok) = (*v, *k, *ok);
                if !self.nodes[v].idle() || k >= self.nodes[v].snap_out.len() {
                    return false;
                }
                let (to, _idx, delivered) = self.nodes[v].snap_out[k];
                if ok && !delivered {
                    return false;
                }
                self.nodes[v].snap_out.swap_remove(k);
                let st = if ok {
                    SnapshotStatus::Finish
                } else {
                    SnapshotStatus::Failure
                };
                self.call(
                    v,
                    Op::ReportSnapshot(to, ok),
                    |raw| raw.report_snapshot(to, st),
                    |_| Res::Unit,
                )
                .is_some()
            }
            Action::Crash(v) => {
                if !self.nodes[*v].up() {
                    return false;
                }
                let st = self.nodes[*v].stage;
                self.log(format!("n{} CRASH at {:?}", self.nodes[*v].id, st));
                self.mon.note_crash_point(st);
                let app = self.nodes[*v].store.with(|s| (s.vol.applied, s.vol.sm, s.vol.conf.clone()));
                // entries applied beyond what the library had seen persisted: only possible with
                // apply-before-persist (max_apply_unpersisted_log_limit > 0 on a leader)
                let lib_persisted = self.nodes[*v].raw.as_ref().map(|r| r.raft.raft_log.persisted).unwrap_or(u64::MAX);
                self.kill(*v);
                if self.app_state_always_durable && app.0 > lib_persisted {
                    let ahead = self.nodes[*v].store.with_mut(|s| {
                        if app.0 > s.dur.applied && app.0 > s.dur.last_index() {
                            s.dur.applied = app.0;
                            s.dur.sm = app.1;
                            s.dur.conf = app.2.clone();
                            s.vol.applied = app.0;
                            s.vol.sm = app.1;
                            s.vol.conf = app.2.clone();
                            true
                        } else {
                            false
                        }
                    });
                    if ahead {
                        self.mon.stats.inc("crash.applied_state_ahead_of_stable_log");
                        self.log(format!("n{} application state (applied {}) survives ahead of the stable log", self.nodes[*v].id, app.0));
                    }
                }
                true
            }
            Action::CrashMidSend(v) => {
                if !self.nodes[*v].up() {
                    return false;
                }
                self.nodes[*v].crash_mid_send = true;
                true
            }
            Action::RestartUnder(v, k) => {
                let (v, k) = (*v, *k);
                if self.nodes[v].up() || self.nodes[v].stopped {
                    return false;
                }
                self.nodes[v].under_report = k;
                self.nodes[v].inc += 1;
                self.log(format!("n{} RESTART (reporting applied - {})", self.nodes[v].id, k));
                self.mon.stats.inc("restarts_under_reporting_applied");
                self.start_node(v);
                true
            }
            Action::Restart(v) => {
                let v = *v;
                if self.nodes[v].up() || self.nodes[v].stopped {
                    return false;
                }
                self.nodes[v].inc += 1;
                self.log(format!("n{} RESTART", self.nodes[v].id));
                self.start_node(v);
                true
            }
            Action::Partition(mask) => {
                // nodes whose bit is set form side A; links between A and B are blocked
                for a in 1..16u64 {
                    for b in 1..16u64 {
                        let sa = mask >> a & 1;
                        let sb = mask >> b & 1;
                        self.net.blocked[a as usize][b as usize] = sa != sb;
                    }
                }
                self.log(format!("PARTITION mask={:b}", mask));
                true
            }
            Action::Isolate(id) => {
                let a = *id as usize;
                if a == 0 || a >= 16 {
                    return false;
                }
                for b in 1..16usize {
                    if b != a {
                        self.net.blocked[a][b] = true;
                        self.net.blocked[b][a] = true;
                    }
                }
                self.log(format!("ISOLATE n{}", id));
                true
            }
            Action::Heal => {
                self.net.blocked = Default::default();
                self.log("HEAL".into());
                true
            }
            Action::Checkpoint(v) => {
                let n = &self.nodes[*v];
                if !n.idle() {
                    return false;
                }
                n.store.checkpoint()
            }
            Action::Compact(v, to) => {
                let n = &self.nodes[*v];
                if !n.idle() {
                    return false;
                }
                // "It is the application's responsibility to not attempt to compact an index
                // greater than RaftLog.applied" (which can lag the application's own applied
                // index after a restart that under-reported it)
                if *to > n.raw.as_ref().unwrap().raft.raft_log.applied {
                    return false;
                }
                let ok = n.store.compact(*to);
                if ok {
                    self.mon.on_compact(*v, *to);
                    self.log(format!("n{} compact to {}", self.nodes[*v].id, to));
                }
                ok
            }
            Action::ArmSnapUnavail(v, k) => {
                self.nodes[*v].store.with_mut(|s| s.snap_unavailable = *k);
                true
            }
            Action::ArmFetchUnavail(v, k) => {
                self.nodes[*v].store.with_mut(|s| s.fetch_unavailable = *k);
                true
            }
            Action::CompleteFetch(v) => {
                let v = *v;
                if !self.nodes[v].idle() {
                    return false;
                }
                let ctx = self.nodes[v].store.with_mut(|s| {
                    if s.pending_fetch.is_empty() {
                        None
                    } else {
                        Some(s.pending_fetch.remove(0))
                    }
                });
                match ctx {
                    Some(ctx) => self
                        .call(
                            v,
                            Op::OnEntriesFetched,
                            |raw| raw.on_entries_fetched(ctx),
                            |_| Res::Unit,
                        )
                        .is_some(),
                    None => false,
                }
            }
            Action::Knob(v, which, val) => self.do_knob(*v, *which, *val),
            Action::OfferLocal(v, t) => {
                let v = *v;
                if !self.nodes[v].idle() {
                    return false;
                }
                let ty = match t % 5 {
                    0 => MessageType::MsgHup,
                    1 => MessageType::MsgBeat,
                    2 => MessageType::MsgUnreachable,
                    3 => MessageType::MsgSnapStatus,
                    _ => MessageType::MsgCheckQuorum,
                };
                let mut m = Message::default();
                m.set_msg_type(ty);
                m.to = self.nodes[v].id;
                m.from = 1 + (*t as u64 / 5) % 7;
                let m2 = m.clone();
                self.call(
                    v,
                    Op::Step(Box::new(m)),
                    |raw| raw.step(m2),
                    |r| match r {
                        Ok(_) => Res::Ok,
                        Err(e) => Res::Err(format!("{:?}", e)),
                    },
                )
                .is_some()
            }
            Action::OfferStranger(..) => false,
            Action::Ping(v) => {
                let v = *v;
                if !self.nodes[v].idle() {
                    return false;
                }
                self.call(v, Op::Ping, |raw| raw.ping(), |_| Res::Unit)
                    .is_some()
            }
        }
    }

    fn do_knob(&mut self, v: usize, which: u32, val: u64) -> bool {
        if !self.nodes[v].idle() {
            return false;
        }
        match which {
            0 => {
                // adjust_max_inflight_msgs(target, cap)
                let target = 1 + val % 7;
                let cap = (val / 7 % 6) as usize;
                self.mon.on_cap_adjust(v, target, cap);
                self.call(
                    v,
                    Op::Knob("adjust_max_inflight"),
                    |raw| raw.raft.adjust_max_inflight_msgs(target, cap),
                    |_| Res::Unit,
                )
                .is_some()
            }
            1 => self
                .call(
                    v,
                    Op::Knob("set_batch_append"),
                    |raw| raw.set_batch_append(val % 2 == 1),
                    |_| Res::Unit,
                )
                .map(|_| {
                    self.mon.on_batch_knob(v, val % 2 == 1);
                })
                .is_some(),
            2 => self
                .call(
                    v,
                    Op::Knob("set_priority"),
                    |raw| raw.set_priority((val % 4) as i64),
                    |_| Res::Unit,
                )
                .is_some(),
            3 => self
                .call(
                    v,
                    Op::Knob("skip_bcast_commit"),
                    |raw| raw.skip_bcast_commit(val % 2 == 1),
                    |_| Res::Unit,
                )
                .is_some(),
            4 => {
                let sz = [0u64, 30, 100, u64::MAX][(val % 4) as usize];
                self.call(
                    v,
                    Op::Knob("set_max_committed_size_per_ready"),
                    |raw| raw.raft.set_max_committed_size_per_ready(sz),
                    |_| Res::Unit,
                )
                .is_some()
            }
            5 => self
                .call(
                    v,
                    Op::Knob("maybe_free_inflight_buffers"),
                    |raw| raw.raft.maybe_free_inflight_buffers(),
                    |_| Res::Unit,
                )
                .is_some(),
            6 => {
                // only on leaders (documented)
                if self.nodes[v].raw.as_ref().unwrap().raft.state != StateRole::Leader {
                    return false;
                }
                let lim = [0u64, 2, 1000][(val % 3) as usize];
                self.call(
                    v,
                    Op::Knob("set_max_apply_unpersisted_log_limit"),
                    |raw| raw.raft.set_max_apply_unpersisted_log_limit(lim),
                    |_| Res::Unit,
                )
                .is_some()
            }
            7 => {
                // group commit switched at run time (any role; groups may be unassigned)
                let on = val % 2 == 1;
                self.mon.stats.inc("app.group_commit_toggles");
                self.call(
                    v,
                    Op::Knob("enable_group_commit"),
                    |raw| raw.raft.enable_group_commit(on),
                    |_| Res::Unit,
                )
                .is_some()
            }
            _ => false,
        }
    }

    fn deliver(&mut self, v: usize, fl: Flight) {
        let m = fl.m;
        if m.get_msg_type() == MessageType::MsgSnapshot && !fl.dup {
            // mark delivered for the status report of the sender
            if let Some(s) = self.idx_of(m.from) {
                let idx = m.get_snapshot().get_metadata().index;
                if self.nodes[s].inc == fl.from_inc {
                    if let Some(x) = self.nodes[s]
                        .snap_out
                        .iter_mut()
                        .find(|x| x.0 == m.to && x.1 == idx && !x.2)
                    {
                        x.2 = true;
                    }
                }
            }
        }
        self.mon.stats.inc("net.delivered");
        if fl.dup {
            self.mon.stats.inc("net.duplicated");
        }
        if fl.late && m.get_msg_type() == MessageType::MsgSnapshot {
            self.mon.stats.inc("net.late_duplicate_snapshots_delivered");
        }
        let m2 = m.clone();
        self.call(
            v,
            Op::Step(Box::new(m)),
            |raw| raw.step(m2),
            |r| match r {
                Ok(_) => Res::Ok,
                Err(e) => Res::Err(format!("{:?}", e)),
            },
        );
    }
}

pub fn raft_proto_into_v2(mut c: ConfChange) -> ConfChangeV2 {
    let mut cc = ConfChangeV2::default();
    let mut single = raft::eraftpb::ConfChangeSingle::default();
    single.set_change_type(c.get_change_type());
    single.node_id = c.node_id;
    cc.mut_changes().push(single);
    cc.set_context(c.take_context());
    cc
}

/// Operation name without its arguments (stable part of a panic signature).
fn op_sig(opname: &str) -> String {
    let head = opname.split(' ').next().unwrap_or(opname);
    let head = head.split(|c: char| c.is_ascii_digit()).next().unwrap_or(head);
    head.trim_end_matches('(').to_string()
}

fn strip_line(loc: &str) -> String {
    // keep file, drop line so that unrelated edits do not change the signature
    match loc.rfind(':') {
        Some(i) => {
            let f = &loc[..i];
            match f.rfind("src/") {
                Some(j) => f[j..].to_string(),
                None => f.to_string(),
            }
        }
        None => loc.to_string(),
    }
}
