//! Workload generation: cluster shapes, configuration knobs, profile-weighted action menus,
//! chaos phases and fair (settle) phases.

use raft::eraftpb::{ConfChangeTransition, ConfChangeType, ConfState, HardState, MessageType};
use raft::{Config, ReadOnlyOption, StateRole};

use super::cluster::*;
use super::storage::{Checkpoint, Image};
use super::types::*;
use crate::mon::verdict::{Stats, Violation};
use crate::mon::Monitors;
use crate::rng::Rng;

#[derive(Clone, Copy, Debug, PartialEq, Eq)]
pub enum Profile {
    Mixed,
    Election,
    Replication,
    Crash,
    Membership,
    Snapshot,
    Reads,
    Transfer,
    Flow,
    Lockstep,
    Singleton,
}

impl Profile {
    pub fn parse(s: &str) -> Option<Profile> {
        Some(match s {
            "mixed" => Profile::Mixed,
            "election" => Profile::Election,
            "replication" => Profile::Replication,
            "crash" => Profile::Crash,
            "membership" => Profile::Membership,
            "snapshot" => Profile::Snapshot,
            "reads" => Profile::Reads,
            "transfer" => Profile::Transfer,
            "flow" => Profile::Flow,
            "lockstep" => Profile::Lockstep,
            "singleton" => Profile::Singleton,
            _ => return None,
        })
    }
    pub fn name(&self) -> &'static str {
        match self {
            Profile::Mixed => "mixed",
            Profile::Election => "election",
            Profile::Replication => "replication",
            Profile::Crash => "crash",
            Profile::Membership => "membership",
            Profile::Snapshot => "snapshot",
            Profile::Reads => "reads",
            Profile::Transfer => "transfer",
            Profile::Flow => "flow",
            Profile::Lockstep => "lockstep",
            Profile::Singleton => "singleton",
        }
    }
}

pub const N_KINDS: usize = 29;
// action kinds
const K_TICK: usize = 0;
const K_DELIVER: usize = 1;
const K_DUP: usize = 2;
const K_DROP: usize = 3;
const K_PIPE: usize = 4;
const K_PERSIST: usize = 5;
const K_FSYNC: usize = 6;
const K_APPLY: usize = 7;
const K_PROPOSE: usize = 8;
const K_CONF: usize = 9;
const K_READ: usize = 10;
const K_TRANSFER: usize = 11;
const K_CAMPAIGN: usize = 12;
const K_REQSNAP: usize = 13;
const K_UNREACH: usize = 14;
const K_REPSNAP: usize = 15;
const K_CRASH: usize = 16;
const K_CRASHMID: usize = 17;
const K_RESTART: usize = 18;
const K_PARTITION: usize = 19;
const K_HEAL: usize = 20;
const K_CHECKPOINT: usize = 21;
const K_COMPACT: usize = 22;
const K_ARMSNAP: usize = 23;
const K_ARMFETCH: usize = 24;
const K_FETCHDONE: usize = 25;
const K_KNOB: usize = 26;
const K_LOCAL: usize = 27;
const K_PING: usize = 28;

pub fn weights(p: Profile) -> [u32; N_KINDS] {
    let mut w = [0u32; N_KINDS];
    w[K_TICK] = 180;
    w[K_DELIVER] = 320;
    w[K_DUP] = 15;
    w[K_DROP] = 25;
    w[K_PIPE] = 320;
    w[K_PERSIST] = 60;
    w[K_FSYNC] = 8;
    w[K_APPLY] = 90;
    w[K_PROPOSE] = 60;
    w[K_CONF] = 6;
    w[K_READ] = 8;
    w[K_TRANSFER] = 3;
    w[K_CAMPAIGN] = 2;
    w[K_REQSNAP] = 2;
    w[K_UNREACH] = 3;
    w[K_REPSNAP] = 12;
    w[K_CRASH] = 5;
    w[K_CRASHMID] = 2;
    w[K_RESTART] = 14;
    w[K_PARTITION] = 3;
    w[K_HEAL] = 5;
    w[K_CHECKPOINT] = 8;
    w[K_COMPACT] = 5;
    w[K_ARMSNAP] = 1;
    w[K_ARMFETCH] = 1;
    w[K_FETCHDONE] = 10;
    w[K_KNOB] = 3;
    w[K_LOCAL] = 2;
    w[K_PING] = 2;
    match p {
        Profile::Mixed => {}
        Profile::Election => {
            w[K_TICK] = 320;
            w[K_CAMPAIGN] = 8;
            w[K_DUP] = 40;
            w[K_DROP] = 40;
            w[K_CRASH] = 10;
            w[K_CRASHMID] = 5;
            w[K_PARTITION] = 8;
            w[K_CONF] = 10;
            w[K_PROPOSE] = 30;
        }
        Profile::Replication => {
            w[K_PROPOSE] = 140;
            w[K_DUP] = 30;
            w[K_PERSIST] = 50;
            w[K_PARTITION] = 6;
        }
        Profile::Crash => {
            w[K_CRASH] = 22;
            w[K_CRASHMID] = 8;
            w[K_RESTART] = 40;
            w[K_PROPOSE] = 90;
            w[K_PARTITION] = 5;
        }
        Profile::Membership => {
            w[K_CONF] = 45;
            w[K_CAMPAIGN] = 5;
            w[K_CRASH] = 6;
            w[K_TRANSFER] = 4;
            w[K_APPLY] = 60;
        }
        Profile::Snapshot => {
            w[K_CHECKPOINT] = 40;
            w[K_COMPACT] = 40;
            w[K_REQSNAP] = 10;
            w[K_REPSNAP] = 30;
            w[K_PARTITION] = 8;
            w[K_CONF] = 12;
            w[K_ARMSNAP] = 3;
            w[K_CRASH] = 8;
            w[K_PROPOSE] = 100;
        }
        Profile::Reads => {
            w[K_READ] = 90;
            w[K_PARTITION] = 14;
            w[K_HEAL] = 8;
            w[K_DUP] = 40;
            w[K_CAMPAIGN] = 4;
            w[K_CONF] = 10;
            w[K_PROPOSE] = 50;
        }
        Profile::Transfer => {
            w[K_TRANSFER] = 40;
            w[K_CONF] = 12;
            w[K_PROPOSE] = 60;
            w[K_DROP] = 35;
            w[K_PARTITION] = 5;
        }
        Profile::Flow => {
            w[K_PROPOSE] = 200;
            w[K_KNOB] = 25;
            w[K_DUP] = 40;
            w[K_UNREACH] = 10;
            w[K_DROP] = 40;
            w[K_ARMFETCH] = 4;
            w[K_CHECKPOINT] = 15;
            w[K_COMPACT] = 12;
        }
        Profile::Lockstep => {
            // the window premise: a fixed configuration and no requested transfers
            w[K_CONF] = 0;
            w[K_TRANSFER] = 0;
            w[K_CAMPAIGN] = 6;
        }
        Profile::Singleton => {
            w[K_CRASH] = 25;
            w[K_CRASHMID] = 10;
            w[K_RESTART] = 50;
            w[K_PROPOSE] = 120;
            w[K_TICK] = 260;
        }
    }
    w
}

#[derive(Clone, Debug)]
pub struct Shape {
    pub voters: Vec<u64>,
    pub learners: Vec<u64>,
    pub outgoing: Vec<u64>,
    pub learners_next: Vec<u64>,
    pub auto_leave: bool,
    pub blanks: Vec<u64>,
    pub boot: u64,
    pub desc: String,
}

pub struct ExecResult {
    pub seed: u64,
    pub profile: Profile,
    pub violations: Vec<Violation>,
    pub stats: Stats,
    pub calls: u64,
    pub steps: usize,
    pub trace: Vec<String>,
    pub desc: String,
    pub harness_error: Option<String>,
    pub timed_out: bool,
}

pub struct Knobs {
    pub election_tick: usize,
    pub heartbeat_tick: usize,
    pub pre_vote: bool,
    pub check_quorum: bool,
    pub lease_read: bool,
    pub max_size_per_msg: u64,
    pub max_inflight: usize,
    pub max_uncommitted: u64,
    pub max_committed_size_per_ready: u64,
    pub batch_append: bool,
    pub skip_bcast_commit: bool,
    pub disable_forwarding: bool,
    pub group_commit: bool,
    pub priorities: bool,
}

fn draw_knobs(r: &mut Rng, p: Profile) -> Knobs {
    let election_tick = *r.pick(&[3usize, 5, 10]);
    let heartbeat_tick = if election_tick > 3 && r.chance(1, 3) { 2 } else { 1 };
    let mut pre_vote = r.chance(1, 2);
    let mut check_quorum = r.chance(1, 2);
    if p == Profile::Lockstep {
        pre_vote = true;
        check_quorum = true;
    }
    let lease_read = check_quorum && p != Profile::Reads && r.chance(1, 6);
    let max_size_per_msg = match p {
        Profile::Flow | Profile::Replication => *r.pick(&[0u64, 40, 200, u64::MAX]),
        _ => *r.pick(&[0u64, 200, u64::MAX, u64::MAX]),
    };
    let max_inflight = match p {
        Profile::Flow => *r.pick(&[1usize, 2, 4, 4]),
        _ => *r.pick(&[1usize, 2, 4, 256, 256]),
    };
    let mut max_uncommitted = match p {
        Profile::Flow => *r.pick(&[64u64, 256, u64::MAX]),
        _ => *r.pick(&[u64::MAX, u64::MAX, 256, 64]),
    };
    if max_uncommitted < max_size_per_msg && max_size_per_msg != u64::MAX {
        max_uncommitted = max_size_per_msg.max(max_uncommitted);
    }
    if max_size_per_msg == u64::MAX {
        max_uncommitted = u64::MAX;
    }
    Knobs {
        election_tick,
        heartbeat_tick,
        pre_vote,
        check_quorum,
        lease_read,
        max_size_per_msg,
        max_inflight,
        max_uncommitted,
        max_committed_size_per_ready: *r.pick(&[0u64, 30, u64::MAX, u64::MAX]),
        batch_append: r.chance(1, 4),
        skip_bcast_commit: r.chance(1, 5),
        disable_forwarding: r.chance(1, 10),
        group_commit: p != Profile::Lockstep && r.chance(1, 10),
        priorities: r.chance(1, 8),
    }
}

fn draw_shape(r: &mut Rng, p: Profile) -> Shape {
    let nv = match p {
        Profile::Singleton => 1,
        Profile::Lockstep => *r.pick(&[3usize, 3, 5]),
        _ => [1usize, 2, 3, 3, 3, 3, 4, 5, 5, 3][r.usize(10)],
    };
    let mut nv = nv;
    let mut nl = match p {
        Profile::Singleton => 1 + r.usize(2),
        Profile::Lockstep => r.usize(2),
        _ => [0usize, 0, 0, 1, 1, 2][r.usize(6)],
    };
    // the directed schedules need room: five voters, and for the membership ones two more nodes
    match p {
        Profile::Membership | Profile::Election if r.chance(1, 6) => {
            nv = 5;
            nl = 2;
        }
        Profile::Replication | Profile::Crash if r.chance(1, 6) => nv = 5,
        _ => {}
    }
    let boot = match p {
        Profile::Membership | Profile::Snapshot => {
            if r.chance(3, 4) {
                5
            } else {
                0
            }
        }
        Profile::Lockstep => 0,
        _ => {
            if r.chance(1, 3) {
                5
            } else {
                0
            }
        }
    };
    let voters: Vec<u64> = (1..=nv as u64).collect();
    let learners: Vec<u64> = (nv as u64 + 1..=(nv + nl) as u64).collect();
    let mut next = (nv + nl) as u64 + 1;
    let mut blanks = Vec::new();
    if boot > 0 && p != Profile::Lockstep && p != Profile::Singleton {
        let nb = r.usize(3);
        for _ in 0..nb {
            if next <= 7 {
                blanks.push(next);
                next += 1;
            }
        }
    }
    // joint start: the cluster is mid-way through a joint change
    let mut outgoing = Vec::new();
    let mut learners_next = Vec::new();
    let mut auto_leave = false;
    let mut voters2 = voters.clone();
    let joint_start = if p == Profile::Lockstep { nv >= 3 && r.chance(1, 4) } else { nv >= 2 && p != Profile::Singleton && r.chance(1, 12) };
    if joint_start {
        // outgoing = the original voters; incoming drops the last one (maybe demoting it)
        outgoing = voters.clone();
        // one voter leaves the incoming half, two when there is room (each maybe demoted)
        let ndrop = if nv >= 4 && r.chance(1, 2) { 2 } else { 1 };
        for _ in 0..ndrop {
            let dropped = voters2.pop().unwrap();
            if r.chance(1, 2) {
                learners_next.push(dropped);
            }
        }
        // the lock-step windows need a fixed configuration: no automatic leave there
        auto_leave = p != Profile::Lockstep && r.chance(1, 2);
    }
    let desc = format!(
        "voters {:?} outgoing {:?} learners {:?} learners_next {:?} blanks {:?} boot {}",
        voters2, outgoing, learners, learners_next, blanks, boot
    );
    Shape {
        voters: voters2,
        learners,
        outgoing,
        learners_next,
        auto_leave,
        blanks,
        boot,
        desc,
    }
}

pub struct Driver {
    pub sim: Sim,
    pub rng: Rng,
    pub profile: Profile,
    pub w: [u32; N_KINDS],
    pub knobs: Knobs,
    pub shape: Shape,
    pub universe: Vec<u64>,
    pub sticky_tick: Option<(usize, u32)>,
    pub allow_new_ids: bool,
    /// `drain` returns as soon as this node is in the leader role (directed schedules).
    pub stop_when_leader: Option<usize>,
    /// `drain` returns as soon as this node's commit index reaches the given index.
    pub stop_when_committed: Option<(usize, u64)>,
}

const BOOT_TERM: u64 = 2;

impl Driver {
    pub fn new(seed: u64, profile: Profile, trace_cap: usize) -> Driver {
        let mut rng = Rng::new(seed ^ 0xA5A5_5A5A_1234_8765);
        let mut knobs = draw_knobs(&mut rng, profile);
        let shape = draw_shape(&mut rng, profile);
        // Known finding F4 (a term-0 node that outranks a pre-candidate panics when it
        // rejects the pre-vote) ends an execution within a few dozen steps; keep that
        // configuration reachable but rare so that it does not eat the workload.
        if knobs.priorities && knobs.pre_vote && shape.boot == 0 && !rng.chance(1, 8) {
            knobs.priorities = false;
        }
        raft::verif_export::verif_timeout::seed(Some(seed.wrapping_mul(0x9E3779B97F4A7C15) | 1));

        let mut cs = ConfState::default();
        cs.set_voters(shape.voters.clone());
        cs.set_learners(shape.learners.clone());
        cs.set_voters_outgoing(shape.outgoing.clone());
        cs.set_learners_next(shape.learners_next.clone());
        cs.auto_leave = shape.auto_leave;
        let init_conf = Conf::from_cs(&cs);

        let mut mon = Monitors::new(shape.boot, init_conf.clone(), SM0);
        mon.pre_vote_all = knobs.pre_vote;
        mon.check_quorum_all = knobs.check_quorum;
        mon.read_safe = !knobs.lease_read;
        mon.max_size_per_msg = knobs.max_size_per_msg;
        mon.max_uncommitted = knobs.max_uncommitted;
        let mut sim = Sim::new(mon, trace_cap);
        sim.boot = shape.boot;
        sim.boot_term = if shape.boot > 0 { BOOT_TERM } else { 0 };
        sim.net.echo_snapshots = if profile == Profile::Snapshot { 3 } else { 10 };
        sim.net.echo_state = seed ^ 0x9e37_79b9_7f4a_7c15;
        sim.late_snapshot_report = std::env::var("RVMON_LATE_SNAP").is_ok();
        sim.app_state_always_durable = std::env::var("RVMON_APP_AHEAD").is_ok();

        let members: Vec<u64> = init_conf.members().into_iter().collect();
        let mut universe = members.clone();
        universe.extend(shape.blanks.iter().cloned());
        let async_bias = match profile {
            Profile::Replication | Profile::Crash | Profile::Singleton => 3,
            _ => 2,
        };
        for &id in &universe {
            let mut cfg = Config::new(id);
            cfg.election_tick = knobs.election_tick;
            cfg.heartbeat_tick = knobs.heartbeat_tick;
            cfg.pre_vote = knobs.pre_vote;
            cfg.check_quorum = knobs.check_quorum;
            cfg.read_only_option = if knobs.lease_read {
                ReadOnlyOption::LeaseBased
            } else {
                ReadOnlyOption::Safe
            };
            cfg.max_size_per_msg = knobs.max_size_per_msg;
            cfg.max_inflight_msgs = knobs.max_inflight;
            cfg.max_uncommitted_size = knobs.max_uncommitted;
            cfg.max_committed_size_per_ready = knobs.max_committed_size_per_ready;
            cfg.batch_append = knobs.batch_append;
            cfg.skip_bcast_commit = knobs.skip_bcast_commit;
            cfg.disable_proposal_forwarding = knobs.disable_forwarding;
            if knobs.priorities {
                cfg.priority = rng.below(3) as i64;
            }
            let mode = match rng.usize(2 + async_bias) {
                0 => AppMode::Sync,
                1 => AppMode::Lazy,
                _ => AppMode::Async,
            };
            let is_member = members.contains(&id);
            let mut img = Image::default();
            if is_member {
                img.conf = cs.clone();
                if shape.boot > 0 {
                    img.snap_index = shape.boot;
                    img.snap_term = BOOT_TERM;
                    let mut hs = HardState::default();
                    hs.term = BOOT_TERM;
                    hs.commit = shape.boot;
                    img.hs = hs;
                    img.applied = shape.boot;
                    img.sm = SM0;
                    img.ck = Some(Checkpoint {
                        index: shape.boot,
                        term: BOOT_TERM,
                        sm: SM0,
                        conf: cs.clone(),
                    });
                } else {
                    img.sm = SM0;
                }
            } else {
                img.sm = SM0;
            }
            let group = if knobs.group_commit { 1 + rng.below(2) } else { 0 };
            sim.add_node(id, cfg, mode, img, group);
        }
        let allow_new_ids = shape.boot > 0;
        Driver {
            sim,
            rng,
            profile,
            w: weights(profile),
            knobs,
            shape,
            universe,
            sticky_tick: None,
            allow_new_ids,
            stop_when_leader: None,
            stop_when_committed: None,
        }
    }

    fn n(&self) -> usize {
        self.sim.nodes.len()
    }

    fn pick_up_idle(&mut self) -> Option<usize> {
        let n = self.n();
        let start = self.rng.usize(n);
        for k in 0..n {
            let v = (start + k) % n;
            if self.sim.nodes[v].idle() {
                return Some(v);
            }
        }
        None
    }

    fn pick_leader(&mut self) -> Option<usize> {
        let n = self.n();
        let start = self.rng.usize(n);
        for k in 0..n {
            let v = (start + k) % n;
            if let Some(r) = self.sim.nodes[v].raw.as_ref() {
                if r.raft.state == StateRole::Leader && self.sim.nodes[v].stage == Stage::Idle {
                    return Some(v);
                }
            }
        }
        None
    }

    fn random_conf_spec(&mut self) -> ConfSpec {
        let r = &mut self.rng;
        let ids: Vec<u64> = if self.allow_new_ids {
            self.universe.clone()
        } else {
            self.universe.clone()
        };
        let pick_id = |r: &mut Rng| -> u64 {
            if r.chance(1, 25) {
                if r.chance(1, 2) {
                    0
                } else {
                    9
                }
            } else {
                *r.pick(&ids)
            }
        };
        let types = [
            ConfChangeType::AddNode,
            ConfChangeType::AddLearnerNode,
            ConfChangeType::RemoveNode,
        ];
        let kind = r.usize(10);
        if kind < 3 {
            ConfSpec::V1(*r.pick(&types), pick_id(r))
        } else if kind < 5 {
            // leave joint (legal only when joint)
            ConfSpec::V2(ConfChangeTransition::Auto, vec![])
        } else {
            let tr = *r.pick(&[
                ConfChangeTransition::Auto,
                ConfChangeTransition::Auto,
                ConfChangeTransition::Implicit,
                ConfChangeTransition::Explicit,
            ]);
            let n = 1 + r.usize(3);
            let mut ch = Vec::new();
            for _ in 0..n {
                ch.push((*r.pick(&types), pick_id(r)));
            }
            ConfSpec::V2(tr, ch)
        }
    }

    /// Draws the next chaos action.
    pub fn next_action(&mut self) -> Option<Action> {
        // tick bursts
        if let Some((v, k)) = self.sticky_tick {
            if k > 0 && self.sim.nodes[v].idle() {
                self.sticky_tick = Some((v, k - 1));
                return Some(Action::Tick(v));
            }
            self.sticky_tick = None;
        }
        // keep the network bounded
        if self.sim.net.flights.len() > 160 {
            let i = self.rng.usize(self.sim.net.flights.len());
            return Some(Action::Drop(i));
        }
        let kind = self.rng.weighted(&self.w);
        let n = self.n();
        let r = &mut self.rng;
        let a = match kind {
            K_TICK => {
                let v = self.pick_up_idle()?;
                if self.rng.chance(1, 25) {
                    let et = self.knobs.election_tick as u32;
                    let burst = *self.rng.pick(&[et - 1, et, 2 * et - 1, 2 * et]);
                    self.sticky_tick = Some((v, burst));
                }
                Action::Tick(v)
            }
            K_DELIVER | K_DUP => {
                let len = self.sim.net.flights.len();
                if len == 0 {
                    return None;
                }
                // prefer older messages a little: pick two, keep the older
                let i = r.usize(len);
                let j = r.usize(len);
                let i = if self.sim.net.flights[i].id < self.sim.net.flights[j].id {
                    i
                } else {
                    j
                };
                if kind == K_DUP {
                    // snapshots are the messages whose late duplicates matter most
                    if self.profile == Profile::Snapshot && r.chance(1, 2) {
                        if let Some(k) = self
                            .sim
                            .net
                            .flights
                            .iter()
                            .position(|f| f.m.get_msg_type() == MessageType::MsgSnapshot && !f.late)
                        {
                            return Some(Action::Dup(k));
                        }
                    }
                    Action::Dup(i)
                } else {
                    // duplicated snapshots linger in the network (they arrive late, after the
                    // receiver has moved on)
                    let f = &self.sim.net.flights[i];
                    if f.late && f.m.get_msg_type() == MessageType::MsgSnapshot && r.chance(7, 8) {
                        return None;
                    }
                    Action::Deliver(i)
                }
            }
            K_DROP => {
                let len = self.sim.net.flights.len();
                if len == 0 {
                    return None;
                }
                Action::Drop(r.usize(len))
            }
            K_PIPE => {
                let start = r.usize(n);
                let mut found = None;
                for k in 0..n {
                    let v = (start + k) % n;
                    let nd = &self.sim.nodes[v];
                    if nd.up() && (nd.stage != Stage::Idle || nd.raw.as_ref().unwrap().has_ready()) {
                        found = Some(v);
                        break;
                    }
                }
                match found {
                    Some(v) => Action::Pipe(v),
                    None => {
                        // nothing to do anywhere: now and then ask for a Ready anyway (it must be empty)
                        if self.rng.chance(1, 4) {
                            Action::PipeForce(self.pick_up_idle()?)
                        } else {
                            return None;
                        }
                    }
                }
            }
            K_PERSIST => {
                let start = r.usize(n);
                let mut found = None;
                for k in 0..n {
                    let v = (start + k) % n;
                    let nd = &self.sim.nodes[v];
                    if nd.idle() && !nd.async_recs.is_empty() {
                        found = Some(v);
                        break;
                    }
                }
                if r.chance(1, 8) {
                    // the I/O thread's notice for an older Ready arrives late or twice
                    let start = r.usize(n);
                    for k in 0..n {
                        let v = (start + k) % n;
                        let nd = &self.sim.nodes[v];
                        if nd.idle() && nd.mode == AppMode::Async && nd.last_notified > 0 {
                            return Some(Action::PersistStale(v, r.below(3)));
                        }
                    }
                }
                Action::Persist(found?, r.chance(1, 3))
            }
            K_FSYNC => Action::Fsync(r.usize(n)),
            K_APPLY => {
                let start = r.usize(n);
                let mut found = None;
                for k in 0..n {
                    let v = (start + k) % n;
                    let nd = &self.sim.nodes[v];
                    if nd.idle() && (!nd.apply_q.is_empty() || nd.pending_snap_report.is_some()) && !nd.apply_hold {
                        found = Some(v);
                        break;
                    }
                }
                Action::Apply(found?, 1 + r.usize(4))
            }
            K_PROPOSE => {
                let v = if r.chance(4, 5) {
                    self.pick_leader().or_else(|| self.pick_up_idle())?
                } else {
                    self.pick_up_idle()?
                };
                let size = *self.rng.pick(&[0usize, 8, 8, 12, 20, 40, 70]);
                if self.rng.chance(1, 16) {
                    // an application that batches: several entries in one MsgPropose
                    let k = 2 + self.rng.usize(2);
                    let mut items = Vec::new();
                    for _ in 0..k {
                        let sz = *self.rng.pick(&[8usize, 8, 12, 30]);
                        // (never a membership change where the profile rules them out)
                        if self.w[K_CONF] > 0 && self.rng.chance(1, 6) {
                            items.push((0, Some(self.random_conf_spec())));
                        } else {
                            items.push((sz, None));
                        }
                    }
                    return Some(Action::ProposeBatch(v, items));
                }
                Action::Propose(v, size)
            }
            K_CONF => {
                let v = if r.chance(3, 4) {
                    self.pick_leader().or_else(|| self.pick_up_idle())?
                } else {
                    self.pick_up_idle()?
                };
                let spec = self.random_conf_spec();
                if self.rng.chance(1, 6) {
                    // two changes (and maybe an ordinary entry) batched into one proposal
                    let mut items = vec![(0, Some(spec))];
                    if self.rng.chance(1, 3) {
                        items.push((8, None));
                    }
                    items.push((0, Some(self.random_conf_spec())));
                    return Some(Action::ProposeBatch(v, items));
                }
                Action::ProposeConf(v, spec)
            }
            K_READ => {
                // half of the reads go to a node that believes it leads (possibly a stale leader)
                let v = if r.chance(1, 2) {
                    self.pick_leader().or_else(|| self.pick_up_idle())?
                } else {
                    self.pick_up_idle()?
                };
                Action::ReadIndex(v)
            }
            K_TRANSFER => {
                let v = if r.chance(2, 3) {
                    self.pick_leader().or_else(|| self.pick_up_idle())?
                } else {
                    self.pick_up_idle()?
                };
                let t = if self.rng.chance(1, 12) {
                    9
                } else {
                    *self.rng.pick(&self.universe)
                };
                Action::Transfer(v, t)
            }
            K_CAMPAIGN => Action::Campaign(self.pick_up_idle()?),
            K_REQSNAP => Action::RequestSnapshot(self.pick_up_idle()?),
            K_UNREACH => {
                let v = self.pick_leader()?;
                Action::ReportUnreachable(v, *self.rng.pick(&self.universe))
            }
            K_REPSNAP => {
                let start = r.usize(n);
                let mut found = None;
                for k in 0..n {
                    let v = (start + k) % n;
                    let nd = &self.sim.nodes[v];
                    if nd.idle() && !nd.snap_out.is_empty() {
                        found = Some(v);
                        break;
                    }
                }
                let v = found?;
                let k = self.rng.usize(self.sim.nodes[v].snap_out.len());
                let delivered = self.sim.nodes[v].snap_out[k].2;
                let ok = delivered && self.rng.chance(4, 5);
                Action::ReportSnap(v, k, ok)
            }
            K_CRASH => {
                // never take more than a minority of the initial universe down at once in
                // most executions; 1 in 8 crashes ignore that
                let down = self.sim.nodes.iter().filter(|x| !x.up()).count();
                if down * 2 + 1 >= n && !r.chance(1, 8) {
                    return None;
                }
                let start = r.usize(n);
                let mut found = None;
                for k in 0..n {
                    let v = (start + k) % n;
                    if self.sim.nodes[v].up() {
                        found = Some(v);
                        break;
                    }
                }
                Action::Crash(found?)
            }
            K_CRASHMID => {
                let start = r.usize(n);
                let mut found = None;
                for k in 0..n {
                    let v = (start + k) % n;
                    if self.sim.nodes[v].up() {
                        found = Some(v);
                        break;
                    }
                }
                Action::CrashMidSend(found?)
            }
            K_RESTART => {
                let start = r.usize(n);
                let mut found = None;
                for k in 0..n {
                    let v = (start + k) % n;
                    if !self.sim.nodes[v].up() && !self.sim.nodes[v].stopped {
                        found = Some(v);
                        break;
                    }
                }
                let v = found?;
                if self.rng.chance(1, 5) {
                    Action::RestartUnder(v, 1 + self.rng.below(4))
                } else {
                    Action::Restart(v)
                }
            }
            K_PARTITION => {
                let mut mask = 0u64;
                if r.chance(1, 2) {
                    // a leader cut off together with at most one other node (stale-leader shape)
                    if let Some(l) = self.pick_leader() {
                        mask |= 1 << self.sim.nodes[l].id;
                        if self.rng.chance(1, 2) {
                            let o = self.rng.usize(n);
                            mask |= 1 << self.sim.nodes[o].id;
                        }
                    }
                }
                if mask == 0 {
                    for id in 1..9u64 {
                        if self.rng.chance(1, 2) {
                            mask |= 1 << id;
                        }
                    }
                }
                Action::Partition(mask)
            }
            K_HEAL => Action::Heal,
            K_CHECKPOINT => Action::Checkpoint(self.pick_up_idle()?),
            K_COMPACT => {
                let v = self.pick_up_idle()?;
                let (ck, snap) = self.sim.nodes[v]
                    .store
                    .with(|s| (s.vol.ck.as_ref().map(|c| c.index).unwrap_or(0), s.vol.snap_index));
                if ck <= snap {
                    return None;
                }
                // applications usually compact right up to their latest checkpoint
                let to = if self.rng.chance(1, 2) { ck } else { snap + 1 + self.rng.below(ck - snap) };
                Action::Compact(v, to)
            }
            K_ARMSNAP => Action::ArmSnapUnavail(r.usize(n), 1 + r.below(3) as u32),
            K_ARMFETCH => Action::ArmFetchUnavail(r.usize(n), 1 + r.below(3) as u32),
            K_FETCHDONE => {
                let start = r.usize(n);
                let mut found = None;
                for k in 0..n {
                    let v = (start + k) % n;
                    let nd = &self.sim.nodes[v];
                    if nd.idle() && nd.store.with(|s| !s.pending_fetch.is_empty()) {
                        found = Some(v);
                        break;
                    }
                }
                Action::CompleteFetch(found?)
            }
            K_KNOB => {
                let v = self.pick_up_idle()?;
                // (the lock-step windows run with a fixed feature set)
                let kinds = if self.profile == Profile::Lockstep { 7 } else { 8 };
                // apply-before-persist is a leader-only switch: give it a fair share where crashes matter
                if matches!(self.profile, Profile::Crash | Profile::Singleton | Profile::Replication) && self.rng.chance(1, 3) {
                    if let Some(l) = self.pick_leader() {
                        return Some(Action::Knob(l, 6, self.rng.below(1000)));
                    }
                }
                Action::Knob(v, self.rng.below(kinds) as u32, self.rng.below(1000))
            }
            K_LOCAL => {
                let v = self.pick_up_idle()?;
                Action::OfferLocal(v, self.rng.below(35) as u32)
            }
            K_PING => Action::Ping(self.pick_leader()?),
            _ => return None,
        };
        Some(a)
    }

    /// Runs `budget` chaos actions (not-applicable draws do not count).
    pub fn chaos(&mut self, budget: usize) {
        let mut done = 0;
        let mut misses = 0;
        while done < budget && !self.sim.aborted && misses < budget * 20 + 1000 {
            match self.next_action() {
                Some(a) => {
                    if self.sim.exec(&a) {
                        done += 1;
                    } else {
                        misses += 1;
                    }
                }
                None => misses += 1,
            }
        }
    }

    // ------------------------------------------------------------------ fair schedule

    /// Runs every node's pipeline, persistence and apply queue to completion and delivers all
    /// deliverable messages, repeatedly, until nothing moves (bounded).
    fn drain_stop(&self) -> bool {
        self.sim.aborted
            || self.stop_when_leader.is_some_and(|v| {
                self.sim.nodes[v].raw.as_ref().is_some_and(|r| r.raft.state == StateRole::Leader)
            })
            || self.stop_when_committed.is_some_and(|(v, i)| {
                self.sim.nodes[v].raw.as_ref().is_some_and(|r| r.raft.raft_log.committed >= i)
            })
    }

    pub fn drain(&mut self, max_iter: usize) {
        // duplicated snapshots are late arrivals: they are delivered only once everything else
        // has come to rest (so the receiver has usually moved past them)
        let mut flush_late = false;
        for _ in 0..max_iter {
            if self.drain_stop() {
                return;
            }
            let mut moved = false;
            for v in 0..self.n() {
                let mut guard = 0;
                while self.sim.nodes[v].up() && guard < 64 {
                    guard += 1;
                    if (self.stop_when_leader.is_some() || self.stop_when_committed.is_some()) && self.drain_stop() {
                        return;
                    }
                    let nd = &self.sim.nodes[v];
                    let busy = nd.stage != Stage::Idle || nd.raw.as_ref().unwrap().has_ready();
                    if busy {
                        if self.sim.exec(&Action::Pipe(v)) {
                            moved = true;
                        } else {
                            break;
                        }
                        continue;
                    }
                    if !nd.async_recs.is_empty() {
                        if self.sim.exec(&Action::Persist(v, false)) {
                            moved = true;
                        }
                        continue;
                    }
                    if (!nd.apply_q.is_empty() || nd.pending_snap_report.is_some()) && !nd.apply_hold {
                        if self.sim.exec(&Action::Apply(v, 16)) {
                            moved = true;
                        }
                        continue;
                    }
                    if nd.store.with(|s| !s.pending_fetch.is_empty()) {
                        if self.sim.exec(&Action::CompleteFetch(v)) {
                            moved = true;
                        }
                        continue;
                    }
                    break;
                }
                if self.sim.aborted {
                    return;
                }
            }
            // deliver everything deliverable, oldest first
            let mut i = 0;
            self.sim.net.flights.sort_by_key(|f| f.id);
            while i < self.sim.net.flights.len() {
                if self.drain_stop() {
                    return;
                }
                let to = self.sim.net.flights[i].m.to;
                let deliverable = match self.sim.idx_of(to) {
                    Some(v) => self.sim.nodes[v].idle(),
                    None => true,
                };
                let dead = match self.sim.idx_of(to) {
                    Some(v) => self.sim.nodes[v].stopped,
                    None => true,
                };
                if dead {
                    self.sim.net.flights.remove(i);
                    continue;
                }
                let late = {
                    let f = &self.sim.net.flights[i];
                    f.late && f.m.get_msg_type() == MessageType::MsgSnapshot
                };
                if late && !flush_late {
                    i += 1;
                    continue;
                }
                if deliverable {
                    let old_fifo = self.sim.net.fifo;
                    self.sim.net.fifo = true;
                    let ok = self.sim.exec(&Action::Deliver(i));
                    self.sim.net.fifo = old_fifo;
                    if ok {
                        moved = true;
                        continue;
                    }
                }
                i += 1;
            }
            // snapshot status reports
            for v in 0..self.n() {
                while self.sim.nodes[v].idle() && !self.sim.nodes[v].snap_out.is_empty() {
                    let (to, idx, delivered) = self.sim.nodes[v].snap_out[0];
                    let in_flight = self.sim.net.flights.iter().any(|f| {
                        f.m.get_msg_type() == MessageType::MsgSnapshot
                            && f.m.from == self.sim.nodes[v].id
                            && f.m.to == to
                            && f.m.get_snapshot().get_metadata().index == idx
                    });
                    if !delivered && in_flight {
                        break;
                    }
                    if self.sim.exec(&Action::ReportSnap(v, 0, delivered)) {
                        moved = true;
                    } else {
                        break;
                    }
                }
            }
            if !moved {
                let any_late = self
                    .sim
                    .net
                    .flights
                    .iter()
                    .any(|f| f.late && f.m.get_msg_type() == MessageType::MsgSnapshot);
                if flush_late || !any_late {
                    return;
                }
                flush_late = true;
            } else {
                flush_late = false;
            }
        }
    }

    /// Directed schedule aimed at elections under a stale configuration (C02, C03, C09): a
    /// majority of the current voters stops applying (their apply workers stall) while the leader
    /// commits an ordinary entry and then two voter additions; the stalled voters are then cut
    /// off from the rest and their clocks run. With the library's guard they must not campaign
    /// (they hold committed, unapplied membership changes); if they did, their old majority and
    /// the new configuration's majority on the other side would not intersect. Variant A lets
    /// the other side commit more entries first (leader completeness), variant B makes the other
    /// side elect a new leader in the same term (election safety). Only genuine library traffic.
    pub fn stalled_apply_split(&mut self) {
        let l = match self.pick_leader() {
            Some(l) => l,
            None => return,
        };
        if !self.sim.nodes[l].idle() {
            return;
        }
        {
            let nv0 = self.sim.nodes[l].conf.voters.len();
            if nv0 != 3 && nv0 != 5 {
                return;
            }
        }
        // settle first: membership changes still in the pipeline would change the picture
        self.sim.exec(&Action::Heal);
        self.drain(8);
        if self.sim.aborted
            || !self.sim.nodes[l].idle()
            || !self.sim.nodes[l].raw.as_ref().is_some_and(|r| r.raft.state == StateRole::Leader && !r.raft.has_pending_conf())
        {
            return;
        }
        let lid = self.sim.nodes[l].id;
        let conf = self.sim.nodes[l].conf.clone();
        if conf.is_joint() || !conf.voters.contains(&lid) {
            return;
        }
        let voters: Vec<u64> = conf.voters.iter().cloned().collect();
        let nv = voters.len();
        if nv != 3 && nv != 5 {
            return;
        }
        let spare: Vec<u64> = self
            .universe
            .iter()
            .cloned()
            .filter(|id| !conf.voters.contains(id))
            .filter(|id| self.sim.idx_of(*id).is_some_and(|v| self.sim.nodes[v].up() && !self.sim.nodes[v].stopped))
            .collect();
        if spare.len() < 2 {
            return;
        }
        let mut others: Vec<u64> = voters
            .iter()
            .cloned()
            .filter(|x| *x != lid)
            .filter(|id| self.sim.idx_of(*id).is_some_and(|v| self.sim.nodes[v].up() && !self.sim.nodes[v].stopped))
            .collect();
        let k = nv / 2 + 1;
        if others.len() < k {
            return;
        }
        self.rng.shuffle(&mut others);
        others.truncate(k);
        let lag: Vec<usize> = others.iter().filter_map(|id| self.sim.idx_of(*id)).collect();
        for &v in &lag {
            if !self.sim.nodes[v].idle() {
                return;
            }
        }
        for &v in &lag {
            if self.sim.nodes[v].mode == AppMode::Sync {
                // the application moves applying to a worker (legal between two Ready rounds)
                self.sim.nodes[v].mode = AppMode::Lazy;
            }
            self.sim.nodes[v].apply_hold = true;
        }
        self.sim.mon.stats.inc("c02.stalled_apply_scenarios");
        // an ordinary entry first, then two voter additions; the leader applies them, the stalled
        // voters only persist and acknowledge them
        if self.sim.nodes[l].idle() {
            let sz = 30 + self.rng.usize(40);
            self.sim.exec(&Action::Propose(l, sz));
        }
        self.drain(8);
        for s in spare.iter().take(2) {
            if self.sim.aborted {
                return;
            }
            if self.sim.nodes[l].idle() {
                self.sim.exec(&Action::ProposeConf(l, ConfSpec::V1(ConfChangeType::AddNode, *s)));
            }
            self.drain(10);
        }
        // spread the commit index
        for _ in 0..self.knobs.heartbeat_tick + 1 {
            if self.sim.nodes[l].idle() {
                self.sim.exec(&Action::Tick(l));
            }
            self.drain(4);
        }
        if self.sim.aborted {
            return;
        }
        let grown = self.sim.nodes[l].up()
            && self.sim.nodes[l].raw.as_ref().is_some_and(|r| r.raft.state == StateRole::Leader)
            && self.sim.nodes[l].conf.voters.len() == nv + 2
            && !self.sim.nodes[l].conf.is_joint();
        if !grown {
            for &v in &lag {
                self.sim.nodes[v].apply_hold = false;
            }
            return;
        }
        self.sim.mon.stats.inc("c02.stalled_apply_scenarios_grown");
        let mut mask = 0u64;
        for id in &others {
            mask |= 1 << id;
        }
        self.sim.exec(&Action::Partition(mask));
        let variant_b = self.rng.chance(1, 2);
        if !variant_b {
            // the rest commits more entries that the stalled side never sees
            for _ in 0..2 {
                if self.sim.nodes[l].idle() {
                    self.sim.exec(&Action::Propose(l, 8));
                }
                self.drain(6);
            }
        }
        // clocks of the stalled side run (the rest keeps heartbeating so its leader stays)
        let et = self.knobs.election_tick;
        let mut campaigned = false;
        for _round in 0..(5 * et) {
            if self.sim.aborted {
                return;
            }
            for &v in &lag {
                if self.sim.nodes[v].idle() {
                    self.sim.exec(&Action::Tick(v));
                }
            }
            self.drain(6);
            if lag.iter().any(|&v| {
                self.sim.nodes[v]
                    .raw
                    .as_ref()
                    .is_some_and(|r| r.raft.state != StateRole::Follower)
            }) {
                campaigned = true;
            }
            if lag.iter().any(|&v| self.sim.nodes[v].raw.as_ref().is_some_and(|r| r.raft.state == StateRole::Leader)) {
                break;
            }
        }
        self.sim.mon.stats.inc(if campaigned { "c02.stalled_apply_side_campaigned" } else { "c02.stalled_apply_side_refused" });
        if variant_b && !self.sim.aborted {
            // the other side changes leader too: a transfer makes the target campaign at once
            let target = spare[0];
            if self.sim.nodes[l].idle() && self.sim.nodes[l].raw.as_ref().is_some_and(|r| r.raft.state == StateRole::Leader) {
                self.sim.exec(&Action::Transfer(l, target));
            }
            for _ in 0..2 * et {
                if self.sim.aborted {
                    return;
                }
                self.drain(6);
                if self.sim.nodes[l].idle() {
                    self.sim.exec(&Action::Tick(l));
                }
            }
        }
        self.sim.exec(&Action::Heal);
        for &v in &lag {
            self.sim.nodes[v].apply_hold = false;
        }
        self.drain(8);
    }

    /// Directed schedule aimed at per-follower leader state that must not survive a change of
    /// leadership (C04, C01, C13, C15): the leader replicates a few entries to one follower F only,
    /// F is cut off, the others elect a new leader that overwrites that tail on the old leader,
    /// leadership is handed back to the old leader (same process, no restart), and right after it
    /// wins it can reach just one follower. Whatever it remembers about F from its first
    /// leadership is false now; with only two up-to-date copies nothing may commit.
    pub fn regained_leadership(&mut self) {
        let l = match self.pick_leader() {
            Some(l) => l,
            None => return,
        };
        if !self.sim.nodes[l].idle() {
            return;
        }
        if self.sim.nodes[l].conf.voters.len() < 5 {
            return;
        }
        self.sim.exec(&Action::Heal);
        self.drain(8);
        if self.sim.aborted || !self.sim.nodes[l].idle() {
            return;
        }
        if !self.sim.nodes[l].raw.as_ref().is_some_and(|r| r.raft.state == StateRole::Leader && !r.raft.has_pending_conf()) {
            return;
        }
        let lid = self.sim.nodes[l].id;
        let conf = self.sim.nodes[l].conf.clone();
        if conf.is_joint() || conf.voters.len() < 5 || !conf.voters.contains(&lid) {
            return;
        }
        let voters: Vec<u64> = conf.voters.iter().cloned().collect();
        let all_up = voters
            .iter()
            .all(|id| self.sim.idx_of(*id).is_some_and(|v| self.sim.nodes[v].up() && !self.sim.nodes[v].stopped));
        if !all_up {
            return;
        }
        let mut others: Vec<u64> = voters.iter().cloned().filter(|x| *x != lid).collect();
        self.rng.shuffle(&mut others);
        let fid = others[0];
        let xid = others[1];
        self.sim.mon.stats.inc("c04.regained_leadership_scenarios");
        // 1. entries that reach F only
        self.sim.exec(&Action::Partition(1 << lid | 1 << fid));
        let k = 2 + self.rng.usize(3);
        for _ in 0..k {
            if self.sim.nodes[l].idle() {
                self.sim.exec(&Action::Propose(l, 8));
            }
            self.drain(6);
        }
        // 2. F alone, old leader alone, the rest elects
        self.sim.exec(&Action::Isolate(fid));
        self.sim.exec(&Action::Isolate(lid));
        let et = self.knobs.election_tick;
        let mut newl = None;
        for _ in 0..(6 * et) {
            if self.sim.aborted {
                return;
            }
            for v in 0..self.n() {
                let id = self.sim.nodes[v].id;
                if id != lid && id != fid && self.sim.nodes[v].idle() {
                    self.sim.exec(&Action::Tick(v));
                }
            }
            self.drain(6);
            newl = (0..self.n()).find(|&v| {
                let id = self.sim.nodes[v].id;
                id != lid
                    && id != fid
                    && self.sim.nodes[v].raw.as_ref().is_some_and(|r| {
                        r.raft.state == StateRole::Leader && r.raft.raft_log.committed == r.raft.raft_log.last_index()
                    })
            });
            if newl.is_some() {
                break;
            }
        }
        let nl = match newl {
            Some(nl) => nl,
            None => {
                self.sim.exec(&Action::Heal);
                return;
            }
        };
        // 3. the old leader rejoins (F stays cut off) and is caught up by the new leader
        self.sim.exec(&Action::Heal);
        self.sim.exec(&Action::Isolate(fid));
        for _ in 0..3 {
            if self.sim.nodes[nl].idle() {
                self.sim.exec(&Action::Tick(nl));
            }
            self.drain(8);
        }
        if self.sim.aborted {
            return;
        }
        let caught_up = self.sim.nodes[l].raw.as_ref().is_some_and(|r| r.raft.state == StateRole::Follower)
            && self.sim.nodes[nl].raw.as_ref().is_some_and(|r| r.raft.state == StateRole::Leader)
            && self.sim.nodes[l].raw.as_ref().map(|r| r.raft.raft_log.last_index())
                == self.sim.nodes[nl].raw.as_ref().map(|r| r.raft.raft_log.last_index());
        if !caught_up || !self.sim.nodes[nl].idle() {
            self.sim.exec(&Action::Heal);
            return;
        }
        // 4. leadership goes back; the moment the old leader wins it can reach only X
        self.sim.exec(&Action::Transfer(nl, lid));
        self.stop_when_leader = Some(l);
        for _ in 0..4 {
            self.drain(8);
            if self.drain_stop() {
                break;
            }
            if self.sim.nodes[l].idle() {
                self.sim.exec(&Action::Tick(l));
            }
        }
        self.stop_when_leader = None;
        if self.sim.aborted {
            return;
        }
        let regained = self.sim.nodes[l].raw.as_ref().is_some_and(|r| r.raft.state == StateRole::Leader);
        if regained {
            self.sim.mon.stats.inc("c04.regained_leadership_reached");
            self.sim.exec(&Action::Partition(1 << lid | 1 << xid));
            self.sim.exec(&Action::Isolate(fid));
            self.drain(10);
            for _ in 0..self.knobs.heartbeat_tick + 1 {
                if self.sim.nodes[l].idle() {
                    self.sim.exec(&Action::Tick(l));
                }
                self.drain(6);
            }
            if self.sim.nodes[l].idle() && self.rng.chance(1, 2) {
                self.sim.exec(&Action::Propose(l, 8));
                self.drain(6);
            }
            // 5. F comes back and hears the leader before anything repaired its log
            if self.rng.chance(1, 2) {
                self.sim.exec(&Action::Partition(1 << lid | 1 << xid | 1 << fid));
                for _ in 0..self.knobs.heartbeat_tick + 1 {
                    if self.sim.nodes[l].idle() {
                        self.sim.exec(&Action::Tick(l));
                    }
                    self.drain(6);
                }
            }
        }
        self.sim.exec(&Action::Heal);
        self.drain(8);
    }

    /// Directed schedule aimed at quorum arithmetic in joint configurations whose halves overlap
    /// only partly (C02, C03, C04): from five voters, one explicit joint change adds two voters
    /// and removes two others, so incoming = O ∪ {s1,s2}, outgoing = O ∪ {a,b} with |O| = 3. The
    /// overlap O (which holds the leader) is cut off from R = {a,b,s1,s2}: O is a majority of both
    /// halves and may commit; R is a majority of the union of the halves but of neither half,
    /// and must not be able to elect anybody. Finally the partition heals and the group leaves
    /// the joint configuration.
    pub fn joint_overlap_split(&mut self) {
        let l = match self.pick_leader() {
            Some(l) => l,
            None => return,
        };
        if !self.sim.nodes[l].idle() || self.sim.nodes[l].conf.voters.len() != 5 {
            return;
        }
        // settle first: membership changes still in the pipeline would change the picture
        self.sim.exec(&Action::Heal);
        self.drain(8);
        if self.sim.aborted
            || !self.sim.nodes[l].idle()
            || !self.sim.nodes[l].raw.as_ref().is_some_and(|r| r.raft.state == StateRole::Leader && !r.raft.has_pending_conf())
        {
            return;
        }
        let lid = self.sim.nodes[l].id;
        let conf = self.sim.nodes[l].conf.clone();
        if conf.is_joint() || conf.voters.len() != 5 || !conf.voters.contains(&lid) {
            return;
        }
        let up = |d: &Driver, id: u64| d.sim.idx_of(id).is_some_and(|v| d.sim.nodes[v].up() && !d.sim.nodes[v].stopped);
        let spare: Vec<u64> = self.universe.iter().cloned().filter(|id| !conf.voters.contains(id) && up(self, *id)).collect();
        if spare.len() < 2 || !conf.voters.iter().all(|id| up(self, *id)) {
            return;
        }
        let mut out: Vec<u64> = conf.voters.iter().cloned().filter(|x| *x != lid).collect();
        self.rng.shuffle(&mut out);
        let (a, b) = (out[0], out[1]);
        self.sim.mon.stats.inc("c03.joint_overlap_scenarios");
        let spec = ConfSpec::V2(
            ConfChangeTransition::Explicit,
            vec![
                (ConfChangeType::AddNode, spare[0]),
                (ConfChangeType::AddNode, spare[1]),
                (ConfChangeType::RemoveNode, a),
                (ConfChangeType::RemoveNode, b),
            ],
        );
        self.sim.exec(&Action::ProposeConf(l, spec));
        // everybody (including the newcomers) must get into the joint configuration
        let mut joint_everywhere = false;
        for _ in 0..(3 * self.knobs.election_tick) {
            self.drain(10);
            if self.sim.aborted {
                return;
            }
            joint_everywhere = self.sim.nodes[l].raw.as_ref().is_some_and(|r| r.raft.state == StateRole::Leader)
                && self.sim.nodes[l].conf.is_joint()
                && [a, b, spare[0], spare[1]].iter().all(|id| {
                    self.sim.idx_of(*id).is_some_and(|v| self.sim.nodes[v].up() && self.sim.nodes[v].conf.is_joint())
                });
            if joint_everywhere || !self.sim.nodes[l].conf.is_joint() && self.sim.nodes[l].idle() && self.sim.nodes[l].raw.as_ref().is_some_and(|r| !r.raft.has_pending_conf()) {
                break;
            }
            if self.sim.nodes[l].idle() {
                self.sim.exec(&Action::Tick(l));
            }
        }
        if !joint_everywhere {
            return;
        }
        self.sim.mon.stats.inc("c03.joint_overlap_reached");
        let rest = [a, b, spare[0], spare[1]];
        let mut mask = 0u64;
        for id in &rest {
            mask |= 1 << id;
        }
        self.sim.exec(&Action::Partition(mask));
        // the overlap commits on its own
        for _ in 0..2 {
            if self.sim.nodes[l].idle() {
                self.sim.exec(&Action::Propose(l, 8));
            }
            self.drain(6);
        }
        // the rest's clocks run
        let et = self.knobs.election_tick;
        let rest_idx: Vec<usize> = rest.iter().filter_map(|id| self.sim.idx_of(*id)).collect();
        let mut won = false;
        for _ in 0..(5 * et) {
            if self.sim.aborted {
                return;
            }
            for &v in &rest_idx {
                if self.sim.nodes[v].idle() {
                    self.sim.exec(&Action::Tick(v));
                }
            }
            self.drain(6);
            if rest_idx.iter().any(|&v| self.sim.nodes[v].raw.as_ref().is_some_and(|r| r.raft.state == StateRole::Leader)) {
                won = true;
                break;
            }
        }
        self.sim.mon.stats.inc(if won { "c03.joint_overlap_rest_elected" } else { "c03.joint_overlap_rest_elected_nobody" });
        if won && !self.sim.aborted {
            // let the usurper act
            for &v in &rest_idx {
                if self.sim.nodes[v].idle() && self.sim.nodes[v].raw.as_ref().is_some_and(|r| r.raft.state == StateRole::Leader) {
                    self.sim.exec(&Action::Propose(v, 8));
                }
            }
            self.drain(8);
        }
        self.sim.exec(&Action::Heal);
        self.drain(10);
        // leave the joint configuration
        if let Some(nl) = self.pick_leader() {
            if self.sim.nodes[nl].idle() && self.sim.nodes[nl].conf.is_joint() {
                self.sim.exec(&Action::ProposeConf(nl, ConfSpec::V2(ConfChangeTransition::Auto, vec![])));
                self.drain(10);
            }
        }
    }

    /// Directed schedule aimed at progress after a rejoin (C10, C16): a voter V is cut off, the
    /// rest adds a new voter N and hands leadership to it, V's clock runs while it is alone (without
    /// pre-vote its term climbs), then everything heals and the fair suffix must converge: V knows
    /// nothing about N, the leader, and N leads at a term below V's.
    pub fn missed_change_rejoin(&mut self) {
        let l = match self.pick_leader() {
            Some(l) => l,
            None => return,
        };
        if !self.sim.nodes[l].idle() || self.sim.nodes[l].conf.voters.len() < 3 {
            return;
        }
        self.sim.exec(&Action::Heal);
        self.drain(8);
        if self.sim.aborted
            || !self.sim.nodes[l].idle()
            || !self.sim.nodes[l].raw.as_ref().is_some_and(|r| r.raft.state == StateRole::Leader && !r.raft.has_pending_conf())
        {
            return;
        }
        let lid = self.sim.nodes[l].id;
        let conf = self.sim.nodes[l].conf.clone();
        if conf.is_joint() || conf.voters.len() < 3 || !conf.voters.contains(&lid) {
            return;
        }
        let up = |d: &Driver, id: u64| d.sim.idx_of(id).is_some_and(|v| d.sim.nodes[v].up() && !d.sim.nodes[v].stopped);
        let spare: Vec<u64> = self.universe.iter().cloned().filter(|id| !conf.voters.contains(id) && up(self, *id)).collect();
        let others: Vec<u64> = conf.voters.iter().cloned().filter(|x| *x != lid && up(self, *x)).collect();
        if spare.is_empty() || others.len() + 1 < conf.voters.len() {
            return;
        }
        let vid = *self.rng.pick(&others);
        let nid = *self.rng.pick(&spare);
        let (vi, ni) = match (self.sim.idx_of(vid), self.sim.idx_of(nid)) {
            (Some(a), Some(b)) => (a, b),
            _ => return,
        };
        self.sim.mon.stats.inc("c10.missed_change_scenarios");
        self.sim.exec(&Action::Isolate(vid));
        // whatever was on the wire to or from V is lost with the link
        self.sim.net.flights.retain(|f| f.m.to != vid && f.m.from != vid);
        self.sim.exec(&Action::ProposeConf(l, ConfSpec::V1(ConfChangeType::AddNode, nid)));
        let et = self.knobs.election_tick;
        let mut joined = false;
        for _ in 0..(3 * et) {
            self.drain(10);
            if self.sim.aborted {
                return;
            }
            joined = self.sim.nodes[l].conf.voters.contains(&nid)
                && self.sim.nodes[ni].up()
                && self.sim.nodes[ni].conf.voters.contains(&nid)
                && self.sim.nodes[ni].raw.as_ref().map(|r| r.raft.raft_log.last_index())
                    == self.sim.nodes[l].raw.as_ref().map(|r| r.raft.raft_log.last_index());
            if joined {
                break;
            }
            if self.sim.nodes[l].idle() {
                self.sim.exec(&Action::Tick(l));
            }
        }
        if !joined || !self.sim.nodes[l].idle() {
            self.sim.exec(&Action::Heal);
            return;
        }
        self.sim.exec(&Action::Transfer(l, nid));
        self.stop_when_leader = Some(ni);
        for _ in 0..4 {
            self.drain(8);
            if self.drain_stop() {
                break;
            }
            if self.sim.nodes[l].idle() {
                self.sim.exec(&Action::Tick(l));
            }
        }
        self.stop_when_leader = None;
        if self.sim.aborted {
            return;
        }
        let moved = self.sim.nodes[ni].raw.as_ref().is_some_and(|r| r.raft.state == StateRole::Leader);
        if moved {
            self.sim.mon.stats.inc("c10.missed_change_leadership_moved");
        }
        self.drain(8);
        // V alone: its clock runs through a few election timeouts
        for _ in 0..(7 * et) {
            if self.sim.aborted {
                return;
            }
            if self.sim.nodes[vi].idle() {
                self.sim.exec(&Action::Tick(vi));
            }
            self.drain(4);
        }
        self.sim.net.flights.retain(|f| f.m.to != vid && f.m.from != vid);
        self.sim.exec(&Action::Heal);
        crate::sim::settle::settle(self);
    }

    /// Directed schedule aimed at votes that must survive a restart (C02, C06): voter N stops
    /// applying, the leader adds a new voter X; voter Y is cut off the moment the addition commits
    /// (it holds the entry but never learns that it is committed, nor applies it); leadership is
    /// transferred to X, which wins the next term with N's vote (N's own configuration does not
    /// list X yet); N crashes right then and restarts next to Y, away from everybody else; Y's
    /// clock runs and it asks N for a vote in the very same term.
    pub fn forgotten_vote_split(&mut self) {
        let l = match self.pick_leader() {
            Some(l) => l,
            None => return,
        };
        if !self.sim.nodes[l].idle() || self.sim.nodes[l].conf.voters.len() != 3 {
            return;
        }
        self.sim.exec(&Action::Heal);
        self.drain(8);
        if self.sim.aborted
            || !self.sim.nodes[l].idle()
            || !self.sim.nodes[l].raw.as_ref().is_some_and(|r| r.raft.state == StateRole::Leader && !r.raft.has_pending_conf())
        {
            return;
        }
        let lid = self.sim.nodes[l].id;
        let conf = self.sim.nodes[l].conf.clone();
        if conf.is_joint() || conf.voters.len() != 3 || !conf.voters.contains(&lid) {
            return;
        }
        let up = |d: &Driver, id: u64| d.sim.idx_of(id).is_some_and(|v| d.sim.nodes[v].up() && !d.sim.nodes[v].stopped);
        let spare: Vec<u64> = self.universe.iter().cloned().filter(|id| !conf.voters.contains(id) && up(self, *id)).collect();
        let mut others: Vec<u64> = conf.voters.iter().cloned().filter(|x| *x != lid && up(self, *x)).collect();
        if spare.is_empty() || others.len() != 2 {
            return;
        }
        self.rng.shuffle(&mut others);
        let (nid, yid) = (others[0], others[1]);
        let xid = *self.rng.pick(&spare);
        let (ni, yi, xi) = match (self.sim.idx_of(nid), self.sim.idx_of(yid), self.sim.idx_of(xid)) {
            (Some(a), Some(b), Some(c)) => (a, b, c),
            _ => return,
        };
        if !self.sim.nodes[ni].idle() {
            return;
        }
        self.sim.mon.stats.inc("c02.forgotten_vote_scenarios");
        if self.sim.nodes[ni].mode == AppMode::Sync {
            self.sim.nodes[ni].mode = AppMode::Lazy;
        }
        self.sim.nodes[ni].apply_hold = true;
        // the addition; Y is cut off as soon as the leader has committed it
        let idx = self.sim.nodes[l].raw.as_ref().map(|r| r.raft.raft_log.last_index()).unwrap_or(0) + 1;
        self.sim.exec(&Action::ProposeConf(l, ConfSpec::V1(ConfChangeType::AddNode, xid)));
        self.stop_when_committed = Some((l, idx));
        self.drain(10);
        self.stop_when_committed = None;
        if self.sim.aborted {
            return;
        }
        let committed = self.sim.nodes[l].raw.as_ref().is_some_and(|r| r.raft.raft_log.committed >= idx);
        let y_has_entry_uncommitted = self.sim.nodes[yi].raw.as_ref().is_some_and(|r| r.raft.raft_log.last_index() >= idx && r.raft.raft_log.committed < idx);
        if !committed || !y_has_entry_uncommitted {
            self.sim.nodes[ni].apply_hold = false;
            return;
        }
        self.sim.exec(&Action::Isolate(yid));
        self.sim.net.flights.retain(|f| f.m.to != yid && f.m.from != yid);
        // X joins and catches up
        let et = self.knobs.election_tick;
        let mut joined = false;
        for _ in 0..(3 * et) {
            self.drain(10);
            if self.sim.aborted {
                return;
            }
            joined = self.sim.nodes[l].conf.voters.contains(&xid)
                && self.sim.nodes[xi].up()
                && self.sim.nodes[xi].conf.voters.contains(&xid)
                && self.sim.nodes[xi].raw.as_ref().map(|r| r.raft.raft_log.last_index())
                    == self.sim.nodes[l].raw.as_ref().map(|r| r.raft.raft_log.last_index());
            if joined {
                break;
            }
            if self.sim.nodes[l].idle() {
                self.sim.exec(&Action::Tick(l));
            }
        }
        if !joined || !self.sim.nodes[l].idle() || !self.sim.nodes[l].raw.as_ref().is_some_and(|r| r.raft.state == StateRole::Leader) {
            self.sim.nodes[ni].apply_hold = false;
            self.sim.exec(&Action::Heal);
            return;
        }
        // leadership goes to X; N crashes the moment X has won
        self.sim.exec(&Action::Transfer(l, xid));
        self.stop_when_leader = Some(xi);
        for _ in 0..4 {
            self.drain(8);
            if self.drain_stop() {
                break;
            }
            if self.sim.nodes[l].idle() {
                self.sim.exec(&Action::Tick(l));
            }
        }
        self.stop_when_leader = None;
        if self.sim.aborted {
            return;
        }
        let x_leads = self.sim.nodes[xi].raw.as_ref().is_some_and(|r| r.raft.state == StateRole::Leader);
        let term_x = self.sim.nodes[xi].raw.as_ref().map(|r| r.raft.term).unwrap_or(0);
        let n_voted_x = self.sim.nodes[ni].raw.as_ref().is_some_and(|r| r.raft.term == term_x && r.raft.vote == xid);
        if !x_leads || !n_voted_x || !self.sim.nodes[ni].up() {
            self.sim.nodes[ni].apply_hold = false;
            self.sim.exec(&Action::Heal);
            return;
        }
        self.sim.mon.stats.inc("c02.forgotten_vote_reached");
        self.sim.exec(&Action::Crash(ni));
        self.sim.exec(&Action::Partition(1 << nid | 1 << yid));
        self.sim.net.flights.retain(|f| f.m.to != nid && f.m.from != nid && f.m.to != yid && f.m.from != yid);
        self.sim.exec(&Action::Restart(ni));
        if self.sim.nodes[ni].up() {
            if self.sim.nodes[ni].mode == AppMode::Sync {
                self.sim.nodes[ni].mode = AppMode::Lazy;
            }
            self.sim.nodes[ni].apply_hold = true;
        }
        // Y's clock runs: it campaigns for the term X already leads
        let mut y_won = false;
        for _ in 0..(3 * et) {
            if self.sim.aborted {
                return;
            }
            if self.sim.nodes[yi].idle() {
                self.sim.exec(&Action::Tick(yi));
            }
            self.drain(6);
            let yr = self.sim.nodes[yi].raw.as_ref();
            if yr.is_some_and(|r| r.raft.state == StateRole::Leader) {
                y_won = true;
                break;
            }
            if yr.is_some_and(|r| r.raft.term > term_x) {
                break;
            }
        }
        let y_term = self.sim.nodes[yi].raw.as_ref().map(|r| r.raft.term).unwrap_or(0);
        self.sim.mon.stats.inc(if y_won && y_term == term_x {
            "c02.forgotten_vote_second_leader_same_term"
        } else if y_won {
            "c02.forgotten_vote_leader_in_later_term"
        } else {
            "c02.forgotten_vote_refused"
        });
        if self.sim.nodes[ni].up() {
            self.sim.nodes[ni].apply_hold = false;
        }
        self.sim.exec(&Action::Heal);
        self.drain(8);
    }

    /// Directed schedule aimed at "one membership change at a time" as a safety matter (C01, C09):
    /// one batched proposal asks a three-voter leader to remove both other voters. Legally only the
    /// first removal is admitted (the second becomes an empty entry). The leader is cut off the
    /// moment it has committed the batch, before the others learn the commit index; it then
    /// proposes on its own while the others' clocks run. If both removals had been admitted, the
    /// leader alone and the two others would be two disjoint quorums.
    pub fn batched_removals_split(&mut self) {
        let l = match self.pick_leader() {
            Some(l) => l,
            None => return,
        };
        if !self.sim.nodes[l].idle() || self.sim.nodes[l].conf.voters.len() != 3 {
            return;
        }
        self.sim.exec(&Action::Heal);
        self.drain(8);
        if self.sim.aborted
            || !self.sim.nodes[l].idle()
            || !self.sim.nodes[l].raw.as_ref().is_some_and(|r| r.raft.state == StateRole::Leader && !r.raft.has_pending_conf())
        {
            return;
        }
        let lid = self.sim.nodes[l].id;
        let conf = self.sim.nodes[l].conf.clone();
        if conf.is_joint() || conf.voters.len() != 3 || !conf.voters.contains(&lid) {
            return;
        }
        let others: Vec<u64> = conf
            .voters
            .iter()
            .cloned()
            .filter(|x| *x != lid)
            .filter(|id| self.sim.idx_of(*id).is_some_and(|v| self.sim.nodes[v].up() && !self.sim.nodes[v].stopped))
            .collect();
        if others.len() != 2 {
            return;
        }
        self.sim.mon.stats.inc("c01.batched_removals_scenarios");
        let idx = self.sim.nodes[l].raw.as_ref().map(|r| r.raft.raft_log.last_index()).unwrap_or(0) + 2;
        self.sim.exec(&Action::ProposeBatch(
            l,
            vec![
                (0, Some(ConfSpec::V1(ConfChangeType::RemoveNode, others[0]))),
                (0, Some(ConfSpec::V1(ConfChangeType::RemoveNode, others[1]))),
            ],
        ));
        self.stop_when_committed = Some((l, idx));
        self.drain(10);
        self.stop_when_committed = None;
        if self.sim.aborted {
            return;
        }
        if !self.sim.nodes[l].raw.as_ref().is_some_and(|r| r.raft.raft_log.committed >= idx) {
            return;
        }
        self.sim.exec(&Action::Isolate(lid));
        self.sim.net.flights.retain(|f| f.m.to != lid && f.m.from != lid);
        self.sim.mon.stats.inc("c01.batched_removals_leader_cut_off");
        // the leader applies what it committed and goes on alone
        for _ in 0..3 {
            self.drain(6);
            if self.sim.nodes[l].idle() {
                self.sim.exec(&Action::Propose(l, 8));
            }
        }
        // the others' clocks run
        let et = self.knobs.election_tick;
        let oi: Vec<usize> = others.iter().filter_map(|id| self.sim.idx_of(*id)).collect();
        for _ in 0..(4 * et) {
            if self.sim.aborted {
                return;
            }
            for &v in &oi {
                if self.sim.nodes[v].idle() {
                    self.sim.exec(&Action::Tick(v));
                }
            }
            self.drain(6);
            if let Some(&w) = oi.iter().find(|&&v| self.sim.nodes[v].raw.as_ref().is_some_and(|r| r.raft.state == StateRole::Leader)) {
                if self.sim.nodes[w].idle() {
                    self.sim.exec(&Action::Propose(w, 8));
                }
                self.drain(6);
                break;
            }
        }
        self.sim.exec(&Action::Heal);
        self.drain(8);
    }

    /// Directed schedule aimed at what a node releases between two Readies when its role is the
    /// same at both (C06, C02): in a two-voter group the leader L removes the other voter F; F is
    /// cut off the moment the removal commits (it holds the entry, never learns the commit), so
    /// L becomes the only voter of its own configuration while F still believes in both. F's
    /// clock runs: it asks L for a vote in a higher term. L's application is slow: the request is
    /// stepped in and L's clock runs on until it has elected itself again, all before the next
    /// Ready. That Ready carries the grant for F; it must wait for the vote to be durable. L then
    /// crashes before writing, restarts and campaigns: if F got the grant, both lead that term.
    pub fn stranger_vote_at_single_voter(&mut self) {
        let l = match self.pick_leader() {
            Some(l) => l,
            None => return,
        };
        if !self.sim.nodes[l].idle() || self.sim.nodes[l].conf.voters.len() != 2 {
            return;
        }
        self.sim.exec(&Action::Heal);
        self.drain(8);
        if self.sim.aborted
            || !self.sim.nodes[l].idle()
            || !self.sim.nodes[l].raw.as_ref().is_some_and(|r| r.raft.state == StateRole::Leader && !r.raft.has_pending_conf())
        {
            return;
        }
        if self.knobs.check_quorum {
            return;
        }
        let lid = self.sim.nodes[l].id;
        let conf = self.sim.nodes[l].conf.clone();
        if conf.is_joint() || conf.voters.len() != 2 || !conf.voters.contains(&lid) {
            return;
        }
        let fid = *conf.voters.iter().find(|x| **x != lid).unwrap();
        let f = match self.sim.idx_of(fid) {
            Some(f) if self.sim.nodes[f].up() && !self.sim.nodes[f].stopped && self.sim.nodes[f].idle() => f,
            _ => return,
        };
        self.sim.mon.stats.inc("c06.stranger_vote_scenarios");
        let idx = self.sim.nodes[l].raw.as_ref().map(|r| r.raft.raft_log.last_index()).unwrap_or(0) + 1;
        self.sim.exec(&Action::ProposeConf(l, ConfSpec::V1(ConfChangeType::RemoveNode, fid)));
        self.stop_when_committed = Some((l, idx));
        self.drain(10);
        self.stop_when_committed = None;
        if self.sim.aborted {
            return;
        }
        let committed = self.sim.nodes[l].raw.as_ref().is_some_and(|r| r.raft.raft_log.committed >= idx);
        let f_unaware = self.sim.nodes[f].raw.as_ref().is_some_and(|r| r.raft.raft_log.last_index() >= idx && r.raft.raft_log.committed < idx);
        if !committed || !f_unaware {
            return;
        }
        self.sim.exec(&Action::Isolate(fid));
        self.sim.net.flights.retain(|x| x.m.to != fid && x.m.from != fid);
        // L applies the removal: it is the only voter of its own configuration now
        for _ in 0..3 {
            self.drain(8);
        }
        if self.sim.aborted || !self.sim.nodes[l].idle() {
            return;
        }
        let alone = self.sim.nodes[l].conf.voters.len() == 1
            && self.sim.nodes[l].conf.voters.contains(&lid)
            && self.sim.nodes[l].raw.as_ref().is_some_and(|r| r.raft.state == StateRole::Leader);
        if !alone || self.sim.nodes[f].stopped || !self.sim.nodes[f].up() {
            self.sim.exec(&Action::Heal);
            return;
        }
        // F's clock runs until it asks for votes
        let et = self.knobs.election_tick;
        let mut asked = false;
        for _ in 0..(3 * et) {
            if self.sim.aborted {
                return;
            }
            if self.sim.nodes[f].idle() {
                self.sim.exec(&Action::Tick(f));
            }
            // only F's own pipeline runs (its request must be persisted before it leaves)
            for _ in 0..8 {
                if !self.sim.exec(&Action::Pipe(f)) {
                    break;
                }
            }
            self.sim.exec(&Action::Persist(f, false));
            asked = self.sim.net.flights.iter().any(|x| {
                x.m.from == fid && x.m.to == lid && x.m.get_msg_type() == MessageType::MsgRequestVote
            });
            if asked {
                break;
            }
        }
        if !asked {
            self.sim.exec(&Action::Heal);
            return;
        }
        self.sim.exec(&Action::Heal);
        // the request reaches L; L's application does not get round to a Ready; L's clock runs on
        let pos = self.sim.net.flights.iter().position(|x| {
            x.m.from == fid && x.m.to == lid && x.m.get_msg_type() == MessageType::MsgRequestVote
        });
        let pos = match pos {
            Some(p) => p,
            None => return,
        };
        if !self.sim.exec(&Action::Deliver(pos)) {
            return;
        }
        let stepped_down = self.sim.nodes[l].raw.as_ref().is_some_and(|r| r.raft.state == StateRole::Follower && r.raft.vote == fid);
        if !stepped_down {
            self.drain(8);
            return;
        }
        self.sim.mon.stats.inc("c06.stranger_vote_granted_by_single_voter");
        for _ in 0..(2 * et + 2) {
            if self.sim.aborted {
                return;
            }
            if !self.sim.exec(&Action::Tick(l)) {
                break;
            }
            if self.sim.nodes[l].raw.as_ref().is_some_and(|r| r.raft.state == StateRole::Leader) {
                break;
            }
        }
        let again = self.sim.nodes[l].raw.as_ref().is_some_and(|r| r.raft.state == StateRole::Leader);
        if again {
            self.sim.mon.stats.inc("c06.stranger_vote_then_self_elected_before_ready");
            // the Ready round up to (not including) the write; then a crash half of the time
            self.sim.exec(&Action::Pipe(l));
            self.sim.exec(&Action::Pipe(l));
            if self.rng.chance(1, 2) && self.sim.nodes[l].up() {
                self.sim.exec(&Action::Crash(l));
                // whatever L released travels on
                for _ in 0..4 {
                    let p = self.sim.net.flights.iter().position(|x| x.m.to == fid);
                    match p {
                        Some(p) => {
                            if !self.sim.exec(&Action::Deliver(p)) {
                                break;
                            }
                        }
                        None => break,
                    }
                    for _ in 0..8 {
                        if !self.sim.exec(&Action::Pipe(f)) {
                            break;
                        }
                    }
                    self.sim.exec(&Action::Persist(f, false));
                }
                self.sim.exec(&Action::Restart(l));
                for _ in 0..(2 * et + 2) {
                    if self.sim.aborted || !self.sim.nodes[l].up() {
                        break;
                    }
                    if !self.sim.exec(&Action::Tick(l)) {
                        break;
                    }
                    if self.sim.nodes[l].raw.as_ref().is_some_and(|r| r.raft.state == StateRole::Leader) {
                        break;
                    }
                }
            }
        }
        self.drain(10);
    }

    /// Directed schedule for the "superseded leader" clause of C08: cut the leader (with at most
    /// one companion) off, let the majority side elect a new leader and commit, then issue
    /// reads on the stale leader while its side exchanges heartbeats. Only genuine library
    /// traffic is involved; the minority's clocks simply run slow.
    pub fn stale_leader_reads(&mut self) {
        let l = match self.pick_leader() {
            Some(l) => l,
            None => return,
        };
        let lid = self.sim.nodes[l].id;
        let voters: Vec<u64> = self.sim.nodes[l].conf.all_voters().into_iter().collect();
        if voters.len() < 3 {
            return;
        }
        let mut mask = 1u64 << lid;
        let mut companion = None;
        if self.rng.chance(2, 3) {
            let others: Vec<u64> = voters.iter().cloned().filter(|x| *x != lid).collect();
            let c = *self.rng.pick(&others);
            // keep a majority on the other side
            if voters.len() >= 4 {
                mask |= 1 << c;
                companion = self.sim.idx_of(c);
            }
        }
        // the learners may end up on either side; with the stale leader they keep echoing its
        // heartbeats although they count for nothing
        let learners: Vec<u64> = {
            let c = &self.sim.nodes[l].conf;
            c.learners.iter().chain(c.learners_next.iter()).cloned().collect()
        };
        if !learners.is_empty() && self.rng.chance(1, 2) {
            for x in &learners {
                mask |= 1 << x;
            }
            self.sim.mon.stats.inc("c08.stale_leader_scenarios_with_learners");
        }
        self.sim.exec(&Action::Partition(mask));
        self.sim.mon.stats.inc("c08.stale_leader_scenarios");
        let lcommit0 = self.sim.nodes[l].raw.as_ref().map(|r| r.raft.raft_log.committed).unwrap_or(0);
        let et = self.knobs.election_tick;
        let mut superseded = false;
        for round in 0..(12 * et) {
            if self.sim.aborted {
                return;
            }
            for v in 0..self.n() {
                let id = self.sim.nodes[v].id;
                if mask >> id & 1 == 0 && self.sim.nodes[v].idle() {
                    self.sim.exec(&Action::Tick(v));
                }
            }
            self.drain(6);
            // a new leader on the majority side that has committed beyond the old one?
            let newl = (0..self.n()).find(|&v| {
                let id = self.sim.nodes[v].id;
                mask >> id & 1 == 0
                    && self.sim.nodes[v].raw.as_ref().is_some_and(|r| {
                        r.raft.state == StateRole::Leader && r.raft.raft_log.committed > lcommit0
                    })
            });
            match newl {
                Some(nl) if round % 2 == 0 => {
                    if self.sim.nodes[nl].idle() {
                        self.sim.exec(&Action::Propose(nl, 8));
                    }
                    superseded = true;
                    if round > 4 * et {
                        break;
                    }
                }
                Some(_) => superseded = true,
                None => {}
            }
        }
        if !superseded {
            self.sim.exec(&Action::Heal);
            return;
        }
        self.sim.mon.stats.inc("c08.stale_leader_scenarios_superseded");
        // reads on the stale leader (and through its companion), heartbeats within the minority
        for k in 0..3 {
            if self.sim.aborted {
                return;
            }
            let still = self.sim.nodes[l].raw.as_ref().is_some_and(|r| r.raft.state == StateRole::Leader);
            if !still {
                break;
            }
            if self.sim.nodes[l].idle() {
                self.sim.exec(&Action::ReadIndex(l));
            }
            if let Some(c) = companion {
                if k == 1 && self.sim.nodes[c].idle() {
                    self.sim.exec(&Action::ReadIndex(c));
                }
            }
            self.drain(6);
            if self.sim.nodes[l].idle() && k == 0 {
                self.sim.exec(&Action::Tick(l));
            }
        }
        self.sim.exec(&Action::Heal);
    }

    pub fn finish(mut self, seed: u64) -> ExecResult {
        // final full verification of every shadow
        for v in 0..self.n() {
            let nodes = &self.sim.nodes;
            self.sim.mon.verify_shadow(nodes, v, self.sim.step);
        }
        raft::verif_export::verif_timeout::seed(None);
        let mut stats = std::mem::take(&mut self.sim.mon.stats);
        for n in &self.sim.nodes {
            n.store.with(|s| {
                stats.add("storage.snapshot_calls", s.n_snapshot_calls);
                stats.add("storage.snapshot_unavailable", s.n_snapshot_unavail);
                stats.add("storage.fetch_unavailable", s.n_fetch_unavail);
            });
        }
        stats.add("executions", 1);
        if self.sim.timed_out {
            stats.add("executions_stopped_by_watchdog", 1);
        }
        ExecResult {
            seed,
            profile: self.profile,
            violations: std::mem::take(&mut self.sim.mon.violations),
            stats,
            calls: self.sim.total_calls,
            steps: self.sim.step,
            trace: self.sim.trace.iter().cloned().collect(),
            desc: format!(
                "{} | et={} hb={} prevote={} cq={} lease={} msg={} infl={} unc={} cpr={} batch={} gc={} modes={:?}",
                self.shape.desc,
                self.knobs.election_tick,
                self.knobs.heartbeat_tick,
                self.knobs.pre_vote,
                self.knobs.check_quorum,
                self.knobs.lease_read,
                self.knobs.max_size_per_msg as i64,
                self.knobs.max_inflight,
                self.knobs.max_uncommitted as i64,
                self.knobs.max_committed_size_per_ready as i64,
                self.knobs.batch_append,
                self.knobs.group_commit,
                self.sim.nodes.iter().map(|n| n.mode).collect::<Vec<_>>()
            ),
            harness_error: self.sim.harness_error.clone(),
            timed_out: self.sim.timed_out,
        }
    }
}

/// One execution: alternating chaos and (for now unjudged) drain phases.
pub fn run_exec(seed: u64, profile: Profile, actions: usize, trace_cap: usize) -> ExecResult {
    run_exec_focus(seed, profile, actions, trace_cap, None)
}

pub fn run_exec_focus(seed: u64, profile: Profile, actions: usize, trace_cap: usize, focus: Option<&'static str>) -> ExecResult {
    let mut d = Driver::new(seed, profile, trace_cap);
    d.sim.mon.focus = focus;
    if profile == Profile::Lockstep {
        let windows = 1 + actions / 600;
        crate::sim::lockstep::run_windows(&mut d, windows);
        return d.finish(seed);
    }
    let mut left = actions;
    while left > 0 && !d.sim.aborted {
        let chunk = (80 + d.rng.usize(400)).min(left);
        d.chaos(chunk);
        left -= chunk;
        if d.sim.aborted {
            break;
        }
        if profile == Profile::Reads && d.rng.chance(1, 2) {
            d.stale_leader_reads();
            if d.sim.aborted {
                break;
            }
        }
        if matches!(profile, Profile::Replication | Profile::Election | Profile::Crash) && d.rng.chance(1, 4) {
            d.regained_leadership();
            if d.sim.aborted {
                break;
            }
        }
        if matches!(profile, Profile::Membership | Profile::Transfer) && d.rng.chance(1, 2) {
            d.missed_change_rejoin();
            if d.sim.aborted {
                break;
            }
        }
        if matches!(profile, Profile::Membership | Profile::Election | Profile::Crash | Profile::Singleton) && d.rng.chance(1, 4) {
            d.stranger_vote_at_single_voter();
            if d.sim.aborted {
                break;
            }
        }
        if matches!(profile, Profile::Membership | Profile::Election | Profile::Mixed) && d.rng.chance(1, 4) {
            d.batched_removals_split();
            if d.sim.aborted {
                break;
            }
        }
        if matches!(profile, Profile::Membership | Profile::Election | Profile::Crash) && d.rng.chance(1, 4) {
            d.forgotten_vote_split();
            if d.sim.aborted {
                break;
            }
        }
        if matches!(profile, Profile::Membership | Profile::Election) && d.rng.chance(1, 4) {
            d.joint_overlap_split();
            if d.sim.aborted {
                break;
            }
        }
        if matches!(profile, Profile::Membership | Profile::Election) && d.rng.chance(1, 4) {
            d.stalled_apply_split();
            if d.sim.aborted {
                break;
            }
        }
        if d.rng.chance(1, 3) {
            crate::sim::settle::settle(&mut d);
        }
    }
    d.finish(seed)
}
