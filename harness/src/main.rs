mod check;
mod comp;
mod mon;
mod model;
mod rng;
mod run;
mod sim;

fn main() {
    let args: Vec<String> = std::env::args().collect();
    std::process::exit(run::main(&args[1..]));
}
