fn main() { println!("hello"); }
