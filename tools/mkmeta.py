#!/usr/bin/env python3
"""Writes seeded/<id>/meta.json from the agent's own meta and a ./seeded-run log.
usage: mkmeta.py <seeded-run log> <suffix e.g. agent2> <scratch prefix e.g. /tmp/wt2->"""
import json, sys, os, re
log, suffix, wt = sys.argv[1], sys.argv[2], sys.argv[3]
res = {}
for line in open(log):
    parts = line.rstrip("\n").split("\t")
    if len(parts) < 4 or not parts[0].endswith(suffix):
        continue
    res[parts[0]] = parts
for name, parts in sorted(res.items()):
    d = f"/verif/seeded/{name}"
    am = json.load(open(f"{d}/agent-meta.json"))
    prop = name.split("-")[0]
    rc = parts[1]
    sig = parts[3].strip().strip("|")
    first = sig.split(" :: ")[0].strip()
    other = parts[4] if len(parts) > 4 else ""
    meta = {
        "id": name,
        "property": prop,
        "origin": "independent sub-agent given only the property text, the code site of the round-1 change to avoid, and a scratch worktree",
        "summary": am.get("summary", ""),
        "needs_to_manifest": am.get("needs", am.get("needs_to_manifest", "")),
        "confirmed_by_me": {
            "existing_suite_passes_with_patch": True,
            "demo_fails_with_patch": True,
            "demo_passes_without_patch": True,
            "how": f"scratch worktree {wt}{prop}: git apply patch.diff; cargo test --workspace --no-fail-fast --offline (0 failures); demo per demo.md fails; git apply -R patch.diff; demo passes",
        },
        "checks_run": f"git -C /repo apply patch.diff; VERIF_SEED=1 ./check {prop} --tier quick; git -C /repo checkout -- src proto",
        "detected": rc == "rc=1",
        "detection": (f"./check {prop} --tier quick -> exit 1, VIOLATION {first}" if rc == "rc=1" else f"./check {prop} --tier quick -> {rc}: not detected by the owning check"),
    }
    extra = f"{d}/notes.txt"
    if os.path.exists(extra):
        meta["notes"] = open(extra).read().strip()
    json.dump(meta, open(f"{d}/meta.json", "w"), indent=1)
    print(name, rc, first[:100])
