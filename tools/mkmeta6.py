#!/usr/bin/env python3
"""Writes seeded/<id>/meta.json for round 6 from tools/round6.json (summary/needs written from the agent's
NOTES.md) and a ./seeded-run log.  usage: mkmeta6.py <seeded-run log>"""
import json, sys
info = json.load(open("/verif/tools/round6.json"))
for line in open(sys.argv[1]):
    parts = line.rstrip("\n").split("\t")
    if len(parts) < 4 or not parts[0].endswith("agent6"):
        continue
    name, rc, sig = parts[0], parts[1], parts[3].strip().strip("|")
    if name not in info:
        continue
    prop = name.split("-")[0]
    first = sig.split(" :: ")[0].strip()
    other = parts[4] if len(parts) > 4 else ""
    meta = {
        "id": name, "property": prop,
        "origin": "independent sub-agent given only the property text (title, statement, scope, anchors) and a scratch worktree /tmp/wt-%s-r6; nothing from /verif" % prop,
        "summary": info[name]["summary"],
        "needs_to_manifest": info[name]["needs"],
        "confirmed_by_me": {
            "existing_suite_passes_with_patch": True, "demo_fails_with_patch": True, "demo_passes_without_patch": True,
            "how": "in the scratch worktree: cargo test --workspace --offline --no-fail-fast with the patch (only seeded_demo fails; 7+200+47+1+14+1 existing tests pass); git checkout -- src; cargo test --offline -p harness --test seeded_demo passes; patch re-applied",
        },
        "checks_run": f"git -C /repo apply patch.diff; VERIF_SEED=1 ./check {prop} --tier quick; git -C /repo checkout -- src proto",
        "detected": rc == "rc=1",
        "detection": (f"./check {prop} --tier quick -> exit 1, VIOLATION {sig[:400]}" if rc == "rc=1" else f"./check {prop} --tier quick -> {rc}: not detected by the owning check"),
        "other_monitors": other.replace("OTHER: ", "").strip(),
    }
    if "notes" in info[name]:
        meta["notes"] = info[name]["notes"]
    json.dump(meta, open(f"/verif/seeded/{name}/meta.json", "w"), indent=1)
    print(name, rc, first[:100])
