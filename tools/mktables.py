#!/usr/bin/env python3
"""Regenerates the generated tables of DESIGN.md section 9 (between <!-- BEGIN:x --> / <!-- END:x -->)
from seeded/*/meta.json and mutants/RESULTS.tsv."""
import json, glob, os, re, subprocess

def esc(s):
    return s.replace("|", "\\|").replace("\n", " ")

def seeded_table(suffix):
    rows = ["| id | change (abridged) | needs | detection by the owning quick check |", "|---|---|---|---|"]
    for d in sorted(glob.glob(f"/verif/seeded/*-{suffix}")):
        m = json.load(open(f"{d}/meta.json"))
        rows.append("| {} | {} | {} | {} |".format(
            m["id"], esc(m["summary"][:330]), esc(str(m.get("needs_to_manifest", ""))[:260]), esc(m["detection"][:260])))
    return "\n".join(rows)

def changed_line(patch):
    minus, plus, file = None, None, ""
    for l in open(patch):
        if l.startswith("+++ b/"):
            file = l[6:].strip()
        elif l.startswith("-") and not l.startswith("---") and minus is None and l[1:].strip():
            minus = l[1:].strip()
        elif l.startswith("+") and not l.startswith("+++") and plus is None and l[1:].strip():
            plus = l[1:].strip()
    return file, minus, plus

def mutant_table():
    res = {}
    for l in open("/verif/mutants/RESULTS.tsv"):
        p = l.rstrip("\n").split("\t")
        if len(p) >= 3:
            res[p[0]] = p
    rows = ["| mutant | file: original line → mutated line | owning check (quick, VERIF_SEED=1) | first signature | other monitors that fired |", "|---|---|---|---|---|"]
    for f in sorted(glob.glob("/verif/mutants/*.patch")):
        name = os.path.basename(f)[:-6]
        file, minus, plus = changed_line(f)
        r = res.get(name)
        if r is None:
            rows.append(f"| {name} | {file} | not run | | |")
            continue
        rc = r[2]
        sig = (r[5] if len(r) > 5 else "").strip().split(" :: ")[0]
        other = r[6] if len(r) > 6 else ""
        others = sorted(set(re.findall(r"NOTE other-property (C\d\d)", other)))
        rows.append("| {} | `{}`: `{}` → `{}` | {} | {} | {} |".format(
            name, file, esc((minus or "")[:70]), esc((plus or "")[:90]),
            "VIOLATION (exit 1)" if rc == "rc=1" else rc, esc(sig[:110]), " ".join(others)))
    return "\n".join(rows)

def splice(text, tag, body):
    b, e = f"<!-- BEGIN:{tag} -->", f"<!-- END:{tag} -->"
    if b not in text:
        raise SystemExit(f"marker {tag} missing")
    i, j = text.index(b) + len(b), text.index(e)
    return text[:i] + "\n" + body + "\n" + text[j:]

p = "/verif/DESIGN.md"
t = open(p).read()
t = splice(t, "seeded2", seeded_table("agent2"))
t = splice(t, "seeded3", seeded_table("agent3"))
t = splice(t, "seeded4", seeded_table("agent4"))
t = splice(t, "seeded5", seeded_table("agent5"))
t = splice(t, "mutants", mutant_table())
open(p, "w").write(t)
print("tables regenerated")
