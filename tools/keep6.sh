#!/bin/bash
# tools/keep6.sh Cnn : copies a confirmed round-6 seeded change from /tmp/wt-Cnn-r6 into seeded/Cnn-agent6
p=$1; w=/tmp/wt-$p-r6; d=/verif/seeded/$p-agent6
mkdir -p $d
git -C $w diff -- src > $d/patch.diff
cp $w/harness/tests/seeded_demo.rs $d/seeded_demo.rs
cp $w/NOTES.md $d/NOTES.md
cat > $d/demo.md <<EOT
Copy seeded_demo.rs to harness/tests/seeded_demo.rs of a worktree of /repo and run
\`cargo test --offline -p harness --test seeded_demo\`: fails with patch.diff applied, passes without.
EOT
ls -la $d
